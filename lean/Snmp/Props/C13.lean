/-
  C13 — UDP sender: bounded retries, exact timeout behaviour, no socket left open.
  Model: `Snmp.Udp`.  (Partial by nature: kernel socket behaviour, ICMP timing and garbage
  collection are outside the model and only observed on loopback by the thorough tier.)
-/
import Snmp.Model.Udp
import Snmp.Gen.Facts
namespace Snmp.Props.C13
open Snmp.Udp

def unanswered (timeout : Nat) (o : Outcome) : Prop := attempt timeout o = Option.none

/-- general invariant of the retry loop -/
theorem loop_spec (p : Bytes) (t : Nat) (r : Nat) (outs : List Outcome) (f : Final) :
    ∃ n, n ≤ r ∧ (loop p t r outs f).sends = f.sends ++ List.replicate n p ∧
      (loop p t r outs f).opened = f.opened + n ∧ (loop p t r outs f).closed = f.closed + n := by
  induction r generalizing outs f with
  | zero => exact ⟨0, by simp [loop]⟩
  | succ r ih =>
    unfold loop
    simp only
    split
    · exact ⟨1, by omega, by simp, by simp, by simp⟩
    · split
      · exact ⟨1, by omega, by simp, by simp, by simp⟩
      · rcases ih outs.tail ⟨f.sends ++ [p], f.opened + 1, f.closed + 1, f.elapsed + t, f.result⟩ with ⟨n, hn, h1, h2, h3⟩
        refine ⟨n + 1, by omega, ?_, ?_, ?_⟩
        · rw [h1]; simp [List.replicate_succ]
        · rw [h2]; simp; omega
        · rw [h3]; simp; omega

/-- At most `retries` transmissions, each of them the identical request. -/
theorem C13_send_bound (packet : Bytes) (timeout retries : Nat) (outs : List Outcome) :
    (sendUdp packet timeout retries outs).sends.length ≤ retries ∧
    ∀ s ∈ (sendUdp packet timeout retries outs).sends, s = packet := by
  rcases loop_spec packet timeout retries outs ⟨[], 0, 0, 0, .error .unbound⟩ with ⟨n, hn, h1, _, _⟩
  unfold sendUdp
  rw [h1]
  constructor
  · simp; exact hn
  · intro s hs
    simp only [List.nil_append] at hs
    exact List.eq_of_mem_replicate hs

/-- Every endpoint the call opened has been closed when it returns or raises — whatever the
    network did (reply, silence, late or duplicate replies, ICMP/OS error, connection lost). -/
theorem C13_no_socket_left (packet : Bytes) (timeout retries : Nat) (outs : List Outcome) :
    (sendUdp packet timeout retries outs).opened = (sendUdp packet timeout retries outs).closed := by
  rcases loop_spec packet timeout retries outs ⟨[], 0, 0, 0, .error .unbound⟩ with ⟨n, _, _, h2, h3⟩
  unfold sendUdp
  rw [h2, h3]

/-- the loop once the first `k` attempts stay unanswered and attempt `k` ends with `(res, d)` -/
theorem loop_first (p : Bytes) (t : Nat) (k : Nat) :
    ∀ (r : Nat) (outs : List Outcome) (f : Final) (res : Except UErr Bytes) (d : Nat),
      k < r → (∀ i < k, unanswered t (outs.getD i .none)) →
      attempt t (outs.getD k .none) = some (res, d) →
      (loop p t r outs f).result = res ∧ (loop p t r outs f).elapsed = f.elapsed + k * t + d ∧
      (loop p t r outs f).sends.length = f.sends.length + k + 1 := by
  induction k with
  | zero =>
    intro r outs f res d hk _ hat
    cases r with
    | zero => omega
    | succ r =>
      unfold loop
      have : outs.head?.getD Outcome.none = outs.getD 0 Outcome.none := by cases outs <;> rfl
      simp only [this, hat]
      simp
  | succ k ih =>
    intro r outs f res d hk hun hat
    cases r with
    | zero => omega
    | succ r =>
      unfold loop
      have h0 : outs.head?.getD Outcome.none = outs.getD 0 Outcome.none := by cases outs <;> rfl
      have hu0 : attempt t (outs.getD 0 Outcome.none) = Option.none := hun 0 (by omega)
      simp only [h0, hu0]
      have hr : r ≠ 0 := by omega
      simp only [hr, if_false]
      have hget : ∀ i, outs.tail.getD i Outcome.none = outs.getD (i + 1) Outcome.none := by
        intro i; cases outs <;> simp [List.getD]
      have := ih r outs.tail ⟨f.sends ++ [p], f.opened + 1, f.closed + 1, f.elapsed + t, f.result⟩ res d (by omega)
        (fun i hi => by rw [hget]; exact hun (i + 1) (by omega)) (by rw [hget]; exact hat)
      rcases this with ⟨h1, h2, h3⟩
      refine ⟨h1, ?_, ?_⟩
      · rw [h2]; simp [Nat.succ_mul]; omega
      · rw [h3]; simp; omega

/-- The first reply that arrives within its attempt's timeout ends the call at once: its bytes
    are returned unmodified, after `k` full timeouts plus its own delay, with `k + 1`
    transmissions.  (An error reported for attempt `k` ends the call the same way.) -/
theorem C13_first_reply (packet : Bytes) (timeout retries k : Nat) (outs : List Outcome)
    (res : Except UErr Bytes) (d : Nat) (hk : k < retries)
    (hun : ∀ i < k, unanswered timeout (outs.getD i .none))
    (hat : attempt timeout (outs.getD k .none) = some (res, d)) :
    (sendUdp packet timeout retries outs).result = res ∧
    (sendUdp packet timeout retries outs).elapsed = k * timeout + d ∧
    (sendUdp packet timeout retries outs).sends.length = k + 1 := by
  have := loop_first packet timeout k retries outs ⟨[], 0, 0, 0, .error .unbound⟩ res d hk hun hat
  simpa [sendUdp] using this

theorem loop_all_unanswered (p : Bytes) (t : Nat) :
    ∀ (r : Nat) (outs : List Outcome) (f : Final), 0 < r →
      (∀ i < r, unanswered t (outs.getD i .none)) →
      (loop p t r outs f).result = .error .timeout ∧ (loop p t r outs f).elapsed = f.elapsed + r * t ∧
      (loop p t r outs f).sends.length = f.sends.length + r := by
  intro r
  induction r with
  | zero => intro _ _ h; omega
  | succ r ih =>
    intro outs f _ hun
    unfold loop
    have h0 : outs.head?.getD Outcome.none = outs.getD 0 Outcome.none := by cases outs <;> rfl
    have hu0 : attempt t (outs.getD 0 Outcome.none) = Option.none := hun 0 (by omega)
    simp only [h0, hu0]
    by_cases hr : r = 0
    · subst hr; simp
    · simp only [hr, if_false]
      have hget : ∀ i, outs.tail.getD i Outcome.none = outs.getD (i + 1) Outcome.none := by
        intro i; cases outs <;> simp [List.getD]
      rcases ih outs.tail ⟨f.sends ++ [p], f.opened + 1, f.closed + 1, f.elapsed + t, f.result⟩ (by omega)
        (fun i hi => by rw [hget]; exact hun (i + 1) (by omega)) with ⟨h1, h2, h3⟩
      refine ⟨h1, ?_, ?_⟩
      · rw [h2]; simp [Nat.succ_mul]; omega
      · rw [h3]; simp; omega

theorem attempt_not_timeout (t : Nat) (o : Outcome) (res : Except UErr Bytes) (d : Nat)
    (h : attempt t o = some (res, d)) : res ≠ .error .timeout := by
  cases o with
  | reply dl data => simp only [attempt] at h; split at h <;> simp at h; rw [← h.1]; simp
  | none => simp [attempt] at h
  | twoReplies d1 a d2 b =>
    simp only [attempt] at h
    split at h
    · simp at h; rw [← h.1]; simp
    · split at h <;> simp at h; rw [← h.1]; simp
  | osError dl => simp only [attempt] at h; split at h <;> simp at h; rw [← h.1]; simp
  | lost dl w =>
    cases w with
    | true => simp only [attempt] at h; split at h <;> simp at h; rw [← h.1]; simp
    | false => simp [attempt] at h

/-- `Timeout` is raised exactly when `retries` attempts in a row stay unanswered, and then after
    exactly `retries × timeout` and `retries` transmissions. -/
theorem C13_timeout_exact (packet : Bytes) (timeout retries : Nat) (outs : List Outcome) (hr : 1 ≤ retries) :
    ((sendUdp packet timeout retries outs).result = .error .timeout ↔
      ∀ i < retries, unanswered timeout (outs.getD i .none)) ∧
    ((sendUdp packet timeout retries outs).result = .error .timeout →
      (sendUdp packet timeout retries outs).elapsed = retries * timeout ∧
      (sendUdp packet timeout retries outs).sends.length = retries) := by
  have hall : (∀ i < retries, unanswered timeout (outs.getD i .none)) →
      (sendUdp packet timeout retries outs).result = .error .timeout ∧
      (sendUdp packet timeout retries outs).elapsed = retries * timeout ∧
      (sendUdp packet timeout retries outs).sends.length = retries := by
    intro hun
    have := loop_all_unanswered packet timeout retries outs ⟨[], 0, 0, 0, .error .unbound⟩ (by omega) hun
    simpa [sendUdp] using this
  have hconv : (sendUdp packet timeout retries outs).result = .error .timeout →
      ∀ i < retries, unanswered timeout (outs.getD i .none) := by
    intro hres
    -- otherwise there is a first answered attempt, and its result is not Timeout
    apply Classical.byContradiction
    intro hnot
    have hex : ∃ k, k < retries ∧ ¬ unanswered timeout (outs.getD k .none) := by
      apply Classical.byContradiction
      intro hne
      apply hnot
      intro i hi
      apply Classical.byContradiction
      intro hu
      exact hne ⟨i, hi, hu⟩
    -- least such k
    have hleast : ∃ k, k < retries ∧ ¬ unanswered timeout (outs.getD k .none) ∧
        ∀ i < k, unanswered timeout (outs.getD i .none) := by
      rcases hex with ⟨k, hk, hku⟩
      induction k using Nat.strongRecOn with
      | _ k ih =>
        by_cases hall' : ∀ i < k, unanswered timeout (outs.getD i .none)
        · exact ⟨k, hk, hku, hall'⟩
        · have : ∃ i, i < k ∧ ¬ unanswered timeout (outs.getD i .none) := by
            apply Classical.byContradiction
            intro hne
            apply hall'
            intro i hi
            apply Classical.byContradiction
            intro hu
            exact hne ⟨i, hi, hu⟩
          rcases this with ⟨i, hi, hiu⟩
          exact ih i hi (by omega) hiu
    rcases hleast with ⟨k, hk, hku, hpre⟩
    unfold unanswered at hku
    cases hat : attempt timeout (outs.getD k .none) with
    | none => exact hku hat
    | some rd =>
      rcases rd with ⟨res, d⟩
      have := (C13_first_reply packet timeout retries k outs res d hk hpre hat).1
      rw [this] at hres
      exact attempt_not_timeout timeout _ res d hat hres
  exact ⟨⟨hconv, fun h => (hall h).1⟩, fun h => (hall (hconv h)).2⟩

/- non-vacuity -/
example : (sendUdp [1,2] 24 3 [.none, .reply 30 [9], .reply 10 [7]]).result = .ok [7] ∧
    (sendUdp [1,2] 24 3 [.none, .reply 30 [9], .reply 10 [7]]).elapsed = 58 ∧
    (sendUdp [1,2] 24 3 [.none, .reply 30 [9], .reply 10 [7]]).sends = [[1,2],[1,2],[1,2]] := ⟨rfl, rfl, rfl⟩
example : (sendUdp [1] 4 2 [.none, .lost 1 false]).result = .error .timeout := rfl

/-! ### a call abandoned by its caller (`Udp.loopCancel`) -/

theorem loopCancel_spec (p : Bytes) (t c : Nat) (r : Nat) (outs : List Outcome) (f : Final) :
    ∃ n, n ≤ r ∧ (loopCancel p t c r outs f).1.sends = f.sends ++ List.replicate n p ∧
      (loopCancel p t c r outs f).1.opened = f.opened + n ∧ (loopCancel p t c r outs f).1.closed = f.closed + n := by
  induction r generalizing outs f with
  | zero => exact ⟨0, by simp [loopCancel]⟩
  | succ r ih =>
    unfold loopCancel
    simp only
    cases ha : attempt t (outs.head?.getD .none) with
    | some rd =>
      simp only
      by_cases hc : c < f.elapsed + rd.2
      · simp only [hc, ↓reduceIte]; exact ⟨1, by omega, by simp, by simp, by simp⟩
      · simp only [hc, ↓reduceIte]; exact ⟨1, by omega, by simp, by simp, by simp⟩
    | none =>
      simp only
      by_cases hc : c < f.elapsed + t
      · simp only [hc, ↓reduceIte]; exact ⟨1, by omega, by simp, by simp, by simp⟩
      · simp only [hc, ↓reduceIte]
        by_cases hr : r = 0
        · simp only [hr, ↓reduceIte]; exact ⟨1, by omega, by simp, by simp, by simp⟩
        · simp only [hr, ↓reduceIte]
          rcases ih outs.tail ⟨f.sends ++ [p], f.opened + 1, f.closed + 1, f.elapsed + t, f.result⟩ with ⟨n, hn, h1, h2, h3⟩
          refine ⟨n + 1, by omega, ?_, ?_, ?_⟩
          · rw [h1]; simp [List.replicate_succ]
          · rw [h2]; simp; omega
          · rw [h3]; simp; omega

/-- **Abandoned calls leave nothing behind.**  At whatever instant the caller gives up (its own
    `wait_for` deadline, `task.cancel()`), for every script of the network and every retry budget:
    every endpoint the call opened is closed, and what was transmitted until then is at most
    `retries` copies of the request. -/
theorem C13_cancel_no_socket_left (packet : Bytes) (timeout retries : Nat) (outs : List Outcome) (cancelAt : Nat) :
    (sendUdpCancel packet timeout retries outs cancelAt).1.opened = (sendUdpCancel packet timeout retries outs cancelAt).1.closed ∧
    (sendUdpCancel packet timeout retries outs cancelAt).1.sends.length ≤ retries ∧
    ∀ s ∈ (sendUdpCancel packet timeout retries outs cancelAt).1.sends, s = packet := by
  rcases loopCancel_spec packet timeout cancelAt retries outs ⟨[], 0, 0, 0, .error .unbound⟩ with ⟨n, hn, h1, h2, h3⟩
  unfold sendUdpCancel
  rw [h1, h2, h3]
  refine ⟨rfl, by simp; exact hn, ?_⟩
  intro s hs
  simp only [List.nil_append] at hs
  exact List.eq_of_mem_replicate hs

theorem loopCancel_not_cancelled (p : Bytes) (t c : Nat) (r : Nat) (outs : List Outcome) (f : Final)
    (h : (loopCancel p t c r outs f).2 = false) : (loopCancel p t c r outs f).1 = loop p t r outs f := by
  induction r generalizing outs f with
  | zero => simp [loopCancel, loop]
  | succ r ih =>
    unfold loopCancel at h
    unfold loopCancel loop
    simp only at h ⊢
    cases ha : attempt t (outs.head?.getD .none) with
    | some rd =>
      simp only [ha] at h ⊢
      by_cases hc : c < f.elapsed + rd.2
      · simp [hc] at h
      · simp only [hc, ↓reduceIte]
    | none =>
      simp only [ha] at h ⊢
      by_cases hc : c < f.elapsed + t
      · simp [hc] at h
      · simp only [hc, ↓reduceIte] at h ⊢
        by_cases hr : r = 0
        · simp only [hr, ↓reduceIte]
        · simp only [hr, ↓reduceIte] at h ⊢
          exact ih _ _ h

/-- a call that ends before its caller gives up is the call alone: same transmissions, same
    result at the same instant -/
theorem C13_cancel_late (packet : Bytes) (timeout retries : Nat) (outs : List Outcome) (cancelAt : Nat)
    (h : (sendUdpCancel packet timeout retries outs cancelAt).2 = false) :
    (sendUdpCancel packet timeout retries outs cancelAt).1 = sendUdp packet timeout retries outs :=
  loopCancel_not_cancelled packet timeout cancelAt retries outs _ h

/- non-vacuity: abandoned in the second attempt of three; ends by itself when the deadline is later -/
example : (sendUdpCancel [1] 4 3 [.none, .reply 2 [9]] 5).2 = true ∧ (sendUdpCancel [1] 4 3 [.none, .reply 2 [9]] 5).1.sends = [[1], [1]] ∧
    (sendUdpCancel [1] 4 3 [.none, .reply 2 [9]] 6).2 = false := by decide


/-- in `send_udp` every attempt's transport is closed in the `finally` of the `try` around `get_data`
    (shape of the code, generated) — why `Udp.loop` / `Udp.loopCancel` count one `closed` per `opened` -/
theorem C13_close_shape : Snmp.Gen.udpClosesInFinally = true := by decide

end Snmp.Props.C13
