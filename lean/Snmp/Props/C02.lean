/-
  C02 — bulk walk returns exactly what the GETNEXT walk returns.  Property theorems.
-/
import Snmp.Gen.Facts
import Snmp.Model.Walk
namespace Snmp.Props.C02
open Snmp

/-- The GETBULK size bound generated from `Client.bulkget` is RFC 3416's `N + M·R`. -/
theorem C02_bulk_bound (nonRep nOids maxRep : Nat) :
    Gen.bulkBound nonRep nOids maxRep =
      (min nonRep nOids : Nat) + maxRep * (nOids - min nonRep nOids : Nat) := by
  unfold Gen.bulkBound
  have h1 : ((min nonRep nOids : Nat) : Int) = min (nonRep : Int) (nOids : Int) := by omega
  have h2 : ((nOids - min nonRep nOids : Nat) : Int)
      = max ((nOids : Int) - min (nonRep : Int) (nOids : Int)) 0 := by omega
  simp only [h1, h2]

end Snmp.Props.C02
