/-
  C02 — bulk walk returns exactly what the GETNEXT walk returns.  Property theorems.
  Proved: the GETBULK size bound over the generated expression; on the Python-faithful model, for
  any agent: bulk walks yield nothing outside the roots and nothing twice, independent of the
  listing order; with one repetition per request the bulk walk IS the GETNEXT walk; against a
  conformant agent that answers with any number of repetitions, shortened anywhere (also inside
  the first repetition: the fetcher's completion requests), the bulk walk is complete
  (`C02_bulk_complete`) and returns the instance set of the GETNEXT walk (`C02_bulk_eq_getnext`).
-/
import Snmp.Gen.Facts
import Snmp.Model.Walk
import Snmp.Lemmas.WalkFaithful
import Snmp.Lemmas.BulkWalk
import Snmp.Model.Fault
import Snmp.Props.C01
namespace Snmp.Props.C02
open Snmp Snmp.Walk

/-- The GETBULK size bound generated from `Client.bulkget` is RFC 3416's `N + M·R`. -/
theorem C02_bulk_bound (nonRep nOids maxRep : Nat) :
    Gen.bulkBound nonRep nOids maxRep =
      (min nonRep nOids : Nat) + maxRep * (nOids - min nonRep nOids : Nat) := by
  unfold Gen.bulkBound
  have h1 : ((min nonRep nOids : Nat) : Int) = min (nonRep : Int) (nOids : Int) := by omega
  have h2 : ((nOids - min nonRep nOids : Nat) : Int)
      = max ((nOids : Int) - min (nonRep : Int) (nOids : Int)) 0 := by omega
  simp only [h1, h2]

/-- For ANY agent, repetition count and truncation: every binding a bulk walk yields lies inside
    a requested root and no instance is yielded twice (adjacent subtrees overrunning into each
    other included). -/
theorem C02_bulk_sound_nodup (x : Exchange) (size : Nat) (roots : List Oid) (fuel : Nat) :
    (yieldOids (walkBulk x size roots fuel).events).Nodup ∧
    ∀ y ∈ yieldOids (walkBulk x size roots fuel).events, ∃ r ∈ roots, r <+: y := by
  have h := multiwalk_good (bulkFetcher x size) roots false fuel
  refine ⟨h.1, ?_⟩
  intro y hy
  rcases h.2 y hy with ⟨r, hr, hin⟩
  exact ⟨r, ((List.mergeSort_perm roots oidLe).mem_iff (a := r)).mp hr, (inside_iff r y).mp hin⟩

/-- the bulk walk does not depend on the order in which the roots were listed -/
theorem C02_order_independent (x : Exchange) (size : Nat) (roots roots' : List Oid) (h : roots'.Perm roots) (fuel : Nat) :
    walkBulk x size roots' fuel = walkBulk x size roots fuel :=
  multiwalk_perm (bulkFetcher x size) roots roots' h false fuel

/-- with one repetition an agent answers a GETBULK exactly as it answers the GETNEXT -/
theorem getbulk_one_row (a : AgentFn) (oids : List Oid) :
    Agent.getbulkResp a {} 0 1 oids = Agent.getnextResp a oids := by
  unfold Agent.getbulkResp Agent.getnextResp
  cases oids with
  | nil => simp
  | cons o rest =>
    simp only [Nat.zero_min, List.take_zero, List.map_nil, List.drop_zero, List.nil_append, List.isEmpty_cons,
      Bool.false_eq_true, ↓reduceIte]
    simp only [Agent.bulkRows]
    split <;> simp [Agent.bulkRows]

/-- the per-column check on a single (possibly shortened) repetition is the pairwise check of
    `multigetnext` -/
theorem checkColumns_single (n : Nat) : ∀ (out : List VarBind) (prev : List Oid) (k : Nat),
    prev.length = n → k + out.length ≤ n →
    checkColumns n prev k out = ((prev.drop k).zip out).all (fun p => decide (p.1 < p.2.1)) := by
  intro out
  induction out with
  | nil => intro prev k _ _; simp [checkColumns]
  | cons vb rest ih =>
    intro prev k hlen hk
    have hkn : k < n := by simp at hk; omega
    have hmod : k % n = k := Nat.mod_eq_of_lt hkn
    have hget : prev[k]? = some prev[k] := by simp [hlen, hkn]
    unfold checkColumns
    simp only [hmod, hget]
    have hdrop : prev.drop k = prev[k] :: prev.drop (k + 1) := by
      rw [List.drop_eq_getElem_cons (by omega)]
    rw [hdrop, List.zip_cons_cons, List.all_cons]
    by_cases hlt : prev[k] < vb.1
    · simp only [hlt, decide_true, ↓reduceIte, Bool.true_and]
      rw [ih (prev.set k vb.1) (k + 1) (by simp [hlen]) (by simp at hk ⊢; omega)]
      congr 2
      rw [List.drop_set_of_lt (by omega)]
    · simp [hlt]

/-- a response with one binding per requested OID needs no completion -/
theorem completeRow_full (x : Exchange) (oids : List Oid) (fuel : Nat) (vbs : List VarBind)
    (h : oids.length ≤ vbs.length) : completeRow x oids fuel vbs = .ok vbs := by
  cases fuel with
  | zero => rfl
  | succ f =>
    unfold completeRow
    have : ¬ vbs.length < oids.length := by omega
    simp [this]; rfl

/-- **Bulk size 1 ≡ GETNEXT**, on the Python-faithful model and for ANY agent function: the fetcher
    of `bulkwalk(bulk_size=1)` accepts, refuses and returns exactly what `multigetnext` does … -/
theorem bulkVarbinds_one (a : AgentFn) (db : List VarBind) (oids : List Oid) :
    bulkVarbinds (exchangeOf a db {}) [] oids 1 = .ok (Agent.getnextResp a oids) := by
  unfold bulkVarbinds
  simp only [exchangeOf, List.nil_append, List.length_nil, bind, Except.bind, getbulk_one_row]
  have hlen : (Agent.getnextResp a oids).length = oids.length := by simp [Agent.getnextResp]
  have hb : Gen.bulkBound ((0 : Nat) : Int) (oids.length : Int) ((1 : Nat) : Int) = oids.length := by
    simp only [Gen.bulkBound]; omega
  have h1 : ¬ ((oids.length : Int) > Gen.bulkBound ((0 : Nat) : Int) (oids.length : Int) ((1 : Nat) : Int)) := by
    rw [hb]; omega
  simp only [hlen]
  rw [if_neg h1]; rfl

theorem bulkFetcher_one (a : AgentFn) (db : List VarBind) (oids : List Oid) :
    bulkFetcher (exchangeOf a db {}) 1 oids = multigetnext (exchangeOf a db {}) oids := by
  have hlen : (Agent.getnextResp a oids).length = oids.length := by simp [Agent.getnextResp]
  have hout : ((Agent.getnextResp a oids).takeWhile notEom).length ≤ oids.length := by
    rw [← hlen]; exact (List.takeWhile_sublist _).length_le
  unfold bulkFetcher
  rw [bulkVarbinds_one]
  simp only [bind, Except.bind]
  rw [completeRow_full _ oids oids.length _ (by omega)]
  simp only []
  rw [checkColumns_single oids.length _ oids 0 rfl (by omega), List.drop_zero]
  unfold multigetnext
  simp [exchangeOf, bind, Except.bind, hlen, pure, Except.pure]

/-- … hence the whole bulk walk with one repetition per request is the GETNEXT walk: same
    requests (as OID lists), same yields in the same order, same ending. -/
theorem C02_size1_eq_getnext (a : AgentFn) (db : List VarBind) (roots : List Oid) (fuel : Nat) :
    walkBulk (exchangeOf a db {}) 1 roots fuel = walkGetnext (exchangeOf a db {}) roots false fuel := by
  unfold walkBulk walkGetnext
  have : bulkFetcher (exchangeOf a db {}) 1 = multigetnext (exchangeOf a db {}) := by
    funext oids; exact bulkFetcher_one a db oids
  rw [this]

/-- **Completeness of the bulk walk.**  `x` is any exchange that answers a GETBULK like a conformant
    agent holding `db`: between one and max-repetitions repetitions, shortened ANYWHERE as long as
    one binding is left — also inside the first repetition, RFC 3416 4.2.3 (`ConformantBulk` —
    "however many repetitions the agent chooses to put into each response"; rows made of
    endOfMibView included).  For every repetition count ≥ 1, pairwise
    disjoint roots in any order and a loop budget ≥ `|db|`, the bulk walk ends normally, has
    yielded every database entry strictly below a root and yields database entries only. -/
theorem C02_bulk_complete (x : Exchange) (db : List VarBind) (roots : List Oid) (size fuel : Nat)
    (hsize : 1 ≤ size) (hs : WalkAbs.Sorted (db.map (·.1))) (hv : ∀ vb ∈ db, vb.2.isEom = false)
    (hpf : PrefixFree roots) (hne : roots ≠ []) (hx : ConformantBulk x db) (hfuel : db.length ≤ fuel) :
    let r := walkBulk x size roots fuel
    r.outcome = .done ∧
    (∀ vb ∈ db, (∃ root ∈ roots, root <+: vb.1 ∧ vb.1 ≠ root) → vb ∈ r.yields) ∧
    (∀ vb ∈ r.yields, vb ∈ db) := by
  intro r
  have h := multiwalk_bulk x db roots size fuel hsize hs hv (prefixFree_sorted roots hpf) hne hx hfuel false
  refine ⟨h.1, ?_, ?_⟩
  · intro vb hvb ⟨root, hroot, hpre, hneq⟩
    have hroot' : root ∈ sortOids roots := (List.mergeSort_perm roots oidLe).mem_iff.mpr hroot
    have hy := h.2.1 root hroot' vb hvb hpre hneq
    rw [yieldOids_eq] at hy
    obtain ⟨vb', hvb', heq⟩ := List.mem_map.mp hy
    have hdb' := h.2.2 vb' hvb'
    have : vb' = vb := sorted_keys_inj db hs vb' hdb' vb hvb heq
    show vb ∈ (multiwalk (bulkFetcher x size) roots false fuel).yields
    rw [yields_eq]
    exact this ▸ hvb'
  · intro vb hvb
    have hvb' : vb ∈ (multiwalk (bulkFetcher x size) roots false fuel).yields := hvb
    rw [yields_eq] at hvb'
    exact h.2.2 vb hvb'

/-- the model's conformant agent under EVERY truncation policy is such an exchange: number of
    repetitions capped, trailing bindings cut — also into the first repetition —, with or without the
    early stop after an all-endOfMibView repetition -/
theorem C02_policies_conformant (db : List VarBind) (pol : BulkPolicy) :
    ConformantBulk (exchangeOf (Agent.conformant db) db pol) db :=
  exchange_conformantBulk db pol

/-- … and stays one behind any message-size limit: cutting every GETBULK answer — the answers to
    the fetcher's completion requests too — to its first `n` bindings (at least one) -/
theorem C02_size_limit_conformant (x : Exchange) (db : List VarBind) (n : Nat) (hx : ConformantBulk x db) :
    ConformantBulk (Fault.limit x n) db := by
  constructor
  intro m cs hcs hm
  obtain ⟨k, L, hk1, hkm, hL, hresp⟩ := hx.resp m cs hcs hm
  refine ⟨k, min (max 1 n) L, hk1, hkm, by omega, ?_⟩
  simp only [Fault.limit, hresp, List.take_take]

/-- **Bulk walk ≡ GETNEXT walk as sets of instances**, each instance once: same agent, same roots,
    any repetition count, any such truncation policy, strict or lenient GETNEXT walk.  Instances
    whose OID equals a root are left open, as in the property. -/
theorem C02_bulk_eq_getnext (db : List VarBind) (pol : BulkPolicy) (roots : List Oid) (size fuel : Nat)
    (lenient : Bool) (hsize : 1 ≤ size) (hs : WalkAbs.Sorted (db.map (·.1)))
    (hv : ∀ vb ∈ db, vb.2.isEom = false) (hpf : PrefixFree roots) (hne : roots ≠ [])
    (hfuel : db.length ≤ fuel) :
    let x := exchangeOf (Agent.conformant db) db pol
    let b := walkBulk x size roots fuel
    let g := walkGetnext x roots lenient fuel
    b.outcome = .done ∧ g.outcome = .done ∧
    (∀ vb : VarBind, vb.1 ∉ roots → (vb ∈ b.yields ↔ vb ∈ g.yields)) ∧
    (yieldOids b.events).Nodup ∧ (yieldOids g.events).Nodup := by
  intro x b g
  have hb := C02_bulk_complete x db roots size fuel hsize hs hv hpf hne (exchange_conformantBulk db pol) hfuel
  have hg := Snmp.Props.C01.C01_complete db pol roots lenient fuel hs hv hpf hfuel
  have hbs := C02_bulk_sound_nodup x size roots fuel
  have hgs := Snmp.Props.C01.C01_sound_nodup (multigetnext x) roots lenient fuel
  refine ⟨hb.1, hg.1, ?_, hbs.1, hgs.1⟩
  intro vb hnr
  constructor
  · intro hvb
    have hdb := hb.2.2 vb hvb
    have hvb2 : vb ∈ yieldsOf b.events := by rw [← yields_eq]; exact hvb
    have hy : vb.1 ∈ yieldOids b.events := by
      rw [yieldOids_eq]; exact List.mem_map_of_mem (f := fun v : VarBind => v.1) hvb2
    obtain ⟨r, hr, hpre⟩ := hbs.2 vb.1 hy
    exact hg.2.1 vb hdb ⟨r, hr, hpre, fun h => hnr (h ▸ hr)⟩
  · intro hvb
    have hdb := hg.2.2 vb hvb
    have hvb2 : vb ∈ yieldsOf g.events := by rw [← yields_eq]; exact hvb
    have hy : vb.1 ∈ yieldOids g.events := by
      rw [yieldOids_eq]; exact List.mem_map_of_mem (f := fun v : VarBind => v.1) hvb2
    obtain ⟨r, hr, hpre⟩ := hgs.2 vb.1 hy
    exact hb.2.1 vb hdb ⟨r, hr, hpre, fun h => hnr (h ▸ hr)⟩

/- the hypotheses are satisfiable: three adjacent subtrees of different sizes, one empty -/
example : WalkAbs.Sorted ([([1,3,1,1], Val.int 1), ([1,3,1,2], Val.int 2), ([1,3,3,1], Val.null)].map (·.1))
    ∧ PrefixFree [[1,3,3],[1,3,1],[1,3,2]] ∧ ({ rows := some 1, cut := 2, deep := true } : BulkPolicy).deep = true := by
  refine ⟨by unfold WalkAbs.Sorted; decide, by unfold PrefixFree; decide, rfl⟩


/-- the bulk fetcher has the shape the model renders (generated from the AST): `bulk_size` repetitions
    asked for first, a response shorter than one repetition completed by requests for the missing
    columns with max-repetitions 1 until one returns nothing, per-column successor check -/
theorem C02_fetcher_shape : Snmp.Gen.bulkFetcherShape = true := by decide

end Snmp.Props.C02
