/-
  C15 — the pythonic wrapper returns only built-in Python types, equal to the element-wise
  pythonisation of the raw result.  Model: `Snmp.Model.Pyth`.
-/
import Snmp.Gen.Facts
import Snmp.Model.Pyth
namespace Snmp.Props.C15
open Snmp.Pyth

theorem pythonize_builtin (v : Val) : builtin (pythonize v) = true := by
  cases v <;> simp [pythonize, builtin]

theorem builtinList_map {α} (f : α → PyVal) (l : List α) (h : ∀ x, builtin (f x) = true) :
    builtinList (l.map f) = true := by
  induction l with
  | nil => simp [builtinList]
  | cons x xs ih => simp [builtinList, h x, ih]

theorem builtinPairs_map {α} (f : α → PyVal × PyVal) (l : List α)
    (h : ∀ x, builtin (f x).1 = true ∧ builtin (f x).2 = true) : builtinPairs (l.map f) = true := by
  induction l with
  | nil => simp [builtinPairs]
  | cons x xs ih =>
    have := h x
    simp only [List.map_cons]
    cases hf : f x with
    | mk k v => rw [hf] at this; simp [builtinPairs, this.1, this.2, ih]

theorem builtinPairs_append (a b : List (PyVal × PyVal)) :
    builtinPairs (a ++ b) = (builtinPairs a && builtinPairs b) := by
  induction a with
  | nil => simp [builtinPairs]
  | cons p a ih => cases p; simp [builtinPairs, ih, Bool.and_assoc]

theorem pyVarBind_builtin (vb : VarBind) : builtin (pyVarBind vb) = true := by
  simp [pyVarBind, builtin, builtinList, pythonize_builtin]

/-- Whatever the raw client returned, every wrapper method hands out built-in types only —
    str OIDs, int, bytes, timedelta, IPv4Address, None and lists / tuples / dicts of these,
    dictionary keys included. -/
theorem C15_builtin_only :
    (∀ raw, builtin (Pyth.get raw) = true) ∧
    (∀ raw, builtin (getnext raw) = true) ∧
    (∀ raw, builtin (multiget raw) = true) ∧
    (∀ raw, builtin (multiset raw) = true) ∧
    (∀ oid raw r, Pyth.set oid raw = some r → builtin r = true) ∧
    (∀ raw, builtin (walk raw) = true) ∧
    (∀ s l, builtin (bulkget s l) = true) ∧
    (∀ raw, builtin (table raw) = true) := by
  refine ⟨pythonize_builtin, pyVarBind_builtin, ?_, ?_, ?_, ?_, ?_, ?_⟩
  · intro raw; simp only [multiget, builtin]; exact builtinList_map _ _ pythonize_builtin
  · intro raw; simp only [multiset, builtin]
    exact builtinPairs_map _ _ (fun p => ⟨by simp [builtin], pythonize_builtin _⟩)
  · intro oid raw r h
    simp only [Pyth.set, Option.map_eq_some_iff] at h
    rcases h with ⟨p, _, rfl⟩
    exact pythonize_builtin _
  · intro raw; simp only [walk, builtin]; exact builtinList_map _ _ pyVarBind_builtin
  · intro s l
    have h1 := builtinPairs_map (fun p : VarBind => (PyVal.str (dotted p.1), pythonize p.2)) s
      (fun p => ⟨by simp [builtin], pythonize_builtin _⟩)
    have h2 := builtinPairs_map (fun p : VarBind => (PyVal.str (dotted p.1), pythonize p.2)) l
      (fun p => ⟨by simp [builtin], pythonize_builtin _⟩)
    simp [bulkget, builtin, builtinList, h1, h2]
  · intro raw
    simp only [table, builtin]
    apply builtinList_map
    intro r
    simp only [tableRow, builtin, builtinPairs_append, Bool.and_eq_true]
    refine ⟨builtinPairs_map _ _ (fun c => ⟨by simp [builtin], pythonize_builtin _⟩), ?_⟩
    simp [builtinPairs, builtin]

/-- the raw client's result as a Python object -/
inductive Raw where
  | val (v : Val)
  | oid (o : Oid)
  | str (s : String)
  | list (l : List Raw)
  | tuple (l : List Raw)
  | dict (l : List (Raw × Raw))

mutual
/-- element-wise pythonisation (specification side) -/
def spec : Raw → PyVal
  | .val v => pythonize v
  | .oid o => .str (dotted o)
  | .str s => .str s
  | .list l => .list (specList l)
  | .tuple l => .tuple (specList l)
  | .dict l => .dict (specPairs l)
def specList : List Raw → List PyVal
  | [] => []
  | x :: xs => spec x :: specList xs
def specPairs : List (Raw × Raw) → List (PyVal × PyVal)
  | [] => []
  | (k, v) :: xs => (spec k, spec v) :: specPairs xs
end

theorem specList_map {α} (f : α → Raw) (l : List α) : specList (l.map f) = l.map (fun x => spec (f x)) := by
  induction l with
  | nil => simp [specList]
  | cons x xs ih => simp [specList, ih]

theorem specPairs_map {α} (f g : α → Raw) (l : List α) :
    specPairs (l.map fun x => (f x, g x)) = l.map (fun x => (spec (f x), spec (g x))) := by
  induction l with
  | nil => simp [specPairs]
  | cons x xs ih => simp [specPairs, ih]

def rawVarBind (vb : VarBind) : Raw := .tuple [.oid vb.1, .val vb.2]
def rawDict (d : List VarBind) : Raw := .dict (d.map fun p => (.oid p.1, .val p.2))
/-- `tablify` puts the index under "0" first, then the cells -/
def rawRow (r : RawRow) : List (Raw × Raw) := (.str "0", .str r.index) :: r.cells.map fun c => (.str c.1, .val c.2)

/-- Every wrapper result equals the element-wise pythonisation of what the raw client returned
    for the same exchange (table rows as dictionaries: same items, the index key moved last). -/
theorem C15_equals_pythonised :
    (∀ raw, Pyth.get raw = spec (.val raw)) ∧
    (∀ raw, getnext raw = spec (rawVarBind raw)) ∧
    (∀ raw, multiget raw = spec (.list (raw.map .val))) ∧
    (∀ raw, multiset raw = spec (rawDict raw)) ∧
    (∀ oid raw r, Pyth.set oid raw = some r → ∃ p ∈ raw, dotted p.1 = dotted oid ∧ r = spec (.val p.2)) ∧
    (∀ raw, walk raw = spec (.list (raw.map rawVarBind))) ∧
    (∀ s l, bulkget s l = spec (.tuple [rawDict s, rawDict l])) ∧
    (∀ r, ∃ items, tableRow r = .dict items ∧ items.Perm (specPairs (rawRow r))) := by
  refine ⟨fun _ => by simp [Pyth.get, spec], fun _ => by simp [getnext, pyVarBind, rawVarBind, spec, specList],
    ?_, ?_, ?_, ?_, ?_, ?_⟩
  · intro raw; simp [multiget, spec, specList_map]
  · intro raw
    simp only [multiset, rawDict, spec]
    rw [specPairs_map (fun p : VarBind => Raw.oid p.1) (fun p : VarBind => Raw.val p.2)]
    simp [spec]
  · intro oid raw r h
    simp only [Pyth.set, Option.map_eq_some_iff] at h
    rcases h with ⟨p, hp, rfl⟩
    have := List.find?_some hp
    exact ⟨p, List.mem_of_find?_eq_some hp, by simpa using this, by simp [spec]⟩
  · intro raw; simp [walk, spec, specList_map, rawVarBind, pyVarBind, specList]
  · intro s l
    simp only [bulkget, rawDict, spec, specList]
    rw [specPairs_map (fun p : VarBind => Raw.oid p.1) (fun p : VarBind => Raw.val p.2),
      specPairs_map (fun p : VarBind => Raw.oid p.1) (fun p : VarBind => Raw.val p.2)]
    simp [spec]
  · intro r
    refine ⟨_, rfl, ?_⟩
    simp only [rawRow, specPairs, spec]
    rw [specPairs_map (fun c : String × Val => Raw.str c.1) (fun c : String × Val => Raw.val c.2)]
    simp only [spec]
    exact List.perm_append_singleton _ _

/- non-vacuity: a value of every kind goes through, and the universe does contain leaks -/
example : builtin (.dict [(.leak "ObjectIdentifier", .int 1)]) = false := by decide
example : multiget [.ticks 4242, .ip [192, 0, 2, 1], .oid [1, 3, 6]] =
    .list [.timedelta 42420000, .ipv4 3221225985, .str "1.3.6"] := by
  simp [multiget, pythonize, fromBE, dotted]; decide


/-- every `PyWrapper` method that delegates to the raw client's method of the same name hands every
    one of its parameters on — directly or through a local computed from it (shape of the code,
    generated; seeded C15-53 dropped `errors` on the way): the wrapper results are functions of the raw
    results of the SAME call -/
theorem C15_delegation_shape : Snmp.Gen.pyWrapperPassesArgs = true := by decide

end Snmp.Props.C15
