/-
  C04 — GET / GETNEXT / SET / GETBULK results are exactly the agent's answers, in order.
  Property theorems over `Snmp.Ops` (decision logic stated outright) and their composition with
  the conformant agent of `Snmp.Agent`.
-/
import Snmp.Model.Ops
import Snmp.Model.Agent
import Snmp.Props.C07
namespace Snmp.Props.C04
open Snmp Snmp.Ops

/-- multi-get: the values of the response bindings, in response (= request) order, duplicates
    and exception markers kept; a response with another number of bindings is refused. -/
theorem C04_multiget (proto : Proto) (rid : Int) (m : RespMsg) (resp : PduResp) (oids : List Oid)
    (h : recv proto rid (.ok m) = .ok resp) :
    (multiget proto oids).result rid (.ok m) =
      if resp.varbinds.length = oids.length then .ok (resp.varbinds.map (·.2)) else .error .snmpError := by
  simp only [multiget, bind, Except.bind, h, List.length_map]
  split <;> simp_all [pure, Except.pure, throw, throwThe, MonadExceptOf.throw]

/-- against a conformant agent: exactly the agent's values for exactly the requested OIDs -/
theorem C04_multiget_conformant (proto : Proto) (rid : Int) (m : RespMsg) (db : List VarBind)
    (oids : List Oid) (h : recv proto rid (.ok m) = .ok m.pdu)
    (ha : m.pdu.varbinds = Agent.getResp db oids) :
    (multiget proto oids).result rid (.ok m) = .ok ((Agent.getResp db oids).map (·.2)) := by
  rw [C04_multiget proto rid m m.pdu oids h, ha]
  simp [Agent.getResp]

/-- single get of a missing object raises NoSuchOID instead of returning the placeholder -/
theorem C04_get_missing (proto : Proto) (rid : Int) (m : RespMsg) (oid o : Oid) (v : Val)
    (h : recv proto rid (.ok m) = .ok m.pdu) (hv : m.pdu.varbinds = [(o, v)]) (hm : v.isMissing = true) :
    (Ops.get proto oid).result rid (.ok m) = .error (noSuchOid oid) := by
  simp [Ops.get, multiget, bind, Except.bind, h, hv, hm, pure, Except.pure, throw, throwThe,
    MonadExceptOf.throw]

theorem C04_get_present (proto : Proto) (rid : Int) (m : RespMsg) (oid o : Oid) (v : Val)
    (h : recv proto rid (.ok m) = .ok m.pdu) (hv : m.pdu.varbinds = [(o, v)]) (hm : v.isMissing = false) :
    (Ops.get proto oid).result rid (.ok m) = .ok v := by
  simp [Ops.get, multiget, bind, Except.bind, h, hv, hm, pure, Except.pure]

/-- get-next: position-wise bindings up to the first endOfMibView, provided each advances -/
theorem C04_multigetnext (proto : Proto) (rid : Int) (m : RespMsg) (resp : PduResp) (oids : List Oid)
    (h : recv proto rid (.ok m) = .ok resp) :
    (multigetnext proto oids).result rid (.ok m) =
      if resp.varbinds.length ≠ oids.length then .error .snmpError
      else if (oids.zip (resp.varbinds.takeWhile (fun vb => !vb.2.isEom))).all (fun p => decide (p.1 < p.2.1))
        then .ok (resp.varbinds.takeWhile (fun vb => !vb.2.isEom)) else .error .faulty := by
  simp only [multigetnext, bind, Except.bind, h]
  split
  · simp [throw, throwThe, MonadExceptOf.throw]
  · simp only [pure, Except.pure]
    split <;> simp [throw, throwThe, MonadExceptOf.throw, pure, Except.pure]

theorem conformant_advances (db : List VarBind) (o : Oid) (k : Nat)
    (h : ((Agent.conformant db) o k).2.isEom = false) : o < ((Agent.conformant db) o k).1 := by
  unfold Agent.conformant at *
  cases hn : Agent.nextOf db o with
  | none => simp [hn, Val.isEom] at h
  | some e =>
    simp only [hn]
    unfold Agent.nextOf at hn
    have := List.find?_some hn
    simpa using this

theorem conformant_zip_all (db : List VarBind) : ∀ (oids : List Oid),
    (oids.zip ((oids.map (fun x => Agent.conformant db x 0)).takeWhile (fun vb => !vb.2.isEom))).all
      (fun p => decide (p.1 < p.2.1)) = true
  | [] => by simp
  | o :: rest => by
    simp only [List.map_cons, List.takeWhile_cons]
    by_cases he : ((Agent.conformant db) o 0).2.isEom = true
    · simp [he]
    · have he' : ((Agent.conformant db) o 0).2.isEom = false := by simpa using he
      have hadv := conformant_advances db o 0 he'
      simp only [he', Bool.not_false, ↓reduceIte, List.zip_cons_cons, List.all_cons, hadv,
        decide_true, Bool.true_and]
      exact conformant_zip_all db rest

/-- against a conformant agent: each OID's lexicographic successor, up to the end of the view -/
theorem C04_multigetnext_conformant (proto : Proto) (rid : Int) (m : RespMsg) (db : List VarBind)
    (oids : List Oid) (h : recv proto rid (.ok m) = .ok m.pdu)
    (ha : m.pdu.varbinds = Agent.getnextResp (Agent.conformant db) oids) :
    (multigetnext proto oids).result rid (.ok m) =
      .ok ((Agent.getnextResp (Agent.conformant db) oids).takeWhile (fun vb => !vb.2.isEom)) := by
  rw [C04_multigetnext proto rid m m.pdu oids h, ha]
  have hlen : (Agent.getnextResp (Agent.conformant db) oids).length = oids.length := by
    simp [Agent.getnextResp]
  simp only [hlen, ne_eq, not_true_eq_false, ↓reduceIte]
  have hall := conformant_zip_all db oids
  unfold Agent.getnextResp
  simp [hall]

/-- set: the request carries exactly the supplied typed values in mapping order -/
theorem C04_multiset_request (proto : Proto) (rid : Int) (mappings : List VarBind) :
    ((multiset proto mappings).request rid).varbinds = mappings ∧
    ((multiset proto mappings).request rid).kind = .set := by
  simp [multiset]

/-- … and the result is the agent's confirmation keyed by OID -/
theorem C04_multiset_result (proto : Proto) (rid : Int) (m : RespMsg) (resp : PduResp)
    (mappings : List VarBind) (h : recv proto rid (.ok m) = .ok resp) :
    (multiset proto mappings).result rid (.ok m) =
      if (Py.dictOf resp.varbinds).length = mappings.length then .ok (Py.dictOf resp.varbinds)
      else .error .snmpError := by
  simp only [multiset, bind, Except.bind, h]
  split <;> simp_all [pure, Except.pure, throw, throwThe, MonadExceptOf.throw]

/-- get / get-next / set responses with a different number of bindings are refused -/
theorem C04_count_refused (proto : Proto) (rid : Int) (m : RespMsg) (resp : PduResp)
    (oids : List Oid) (mappings : List VarBind) (h : recv proto rid (.ok m) = .ok resp) :
    (resp.varbinds.length ≠ oids.length → (multiget proto oids).result rid (.ok m) = .error .snmpError) ∧
    (resp.varbinds.length ≠ oids.length → (multigetnext proto oids).result rid (.ok m) = .error .snmpError) ∧
    ((Py.dictOf resp.varbinds).length ≠ mappings.length →
      (multiset proto mappings).result rid (.ok m) = .error .snmpError) := by
  refine ⟨?_, ?_, ?_⟩
  · intro hne; rw [C04_multiget proto rid m resp oids h]; simp [hne]
  · intro hne; rw [C04_multigetnext proto rid m resp oids h]; simp [hne]
  · intro hne; rw [C04_multiset_result proto rid m resp mappings h]; simp [hne]

/-- get-bulk: first `|scalars|` bindings keyed as scalars, the rest in agent order as listing up
    to endOfMibView; more than `N + M·R` bindings are refused, fewer accepted. -/
theorem C04_bulkget (proto : Proto) (rid : Int) (m : RespMsg) (resp : PduResp)
    (scalars reps : List Oid) (maxList : Int) (h : recv proto rid (.ok m) = .ok resp) :
    (bulkget proto scalars reps maxList).result rid (.ok m) =
      if (resp.varbinds.length : Int) > Gen.bulkBound scalars.length (scalars ++ reps).length maxList
      then .error .snmpError
      else .ok ⟨Py.dictOf (resp.varbinds.take scalars.length),
                Py.dictOf ((resp.varbinds.drop scalars.length).takeWhile (fun vb => !vb.2.isEom))⟩ := by
  simp only [bulkget, bulkVarbinds, bind, Except.bind, h]
  by_cases hb : (resp.varbinds.length : Int) > Gen.bulkBound scalars.length (scalars ++ reps).length maxList
  · simp only [if_pos hb, throw, throwThe, MonadExceptOf.throw]
  · simp only [if_neg hb, pure, Except.pure]

theorem mem_dictSet {κ ν} [BEq κ] (d : List (κ × ν)) (k : κ) (v : ν) (p : κ × ν)
    (h : p ∈ Py.dictSet d k v) : p ∈ d ∨ p = (k, v) ∨ (∃ q ∈ d, p = (q.1, v)) := by
  unfold Py.dictSet at h
  split at h
  · simp only [List.mem_map] at h
    obtain ⟨q, hq, rfl⟩ := h
    split
    · right; right; exact ⟨q, hq, rfl⟩
    · left; exact hq
  · simp only [List.mem_append, List.mem_singleton] at h
    rcases h with h | h
    · left; exact h
    · right; left; exact h

/-- `dict(bindings)` never invents a value: every value in the result was bound in the input. -/
theorem dictOf_values {κ ν} [BEq κ] (ps : List (κ × ν)) :
    ∀ p ∈ Py.dictOf ps, ∃ q ∈ ps, q.2 = p.2 := by
  unfold Py.dictOf
  suffices H : ∀ (d : List (κ × ν)), (∀ p ∈ d, ∃ q ∈ ps, q.2 = p.2) →
      ∀ (l : List (κ × ν)), (∀ x ∈ l, x ∈ ps) →
      ∀ p ∈ l.foldl (fun d p => Py.dictSet d p.1 p.2) d, ∃ q ∈ ps, q.2 = p.2 by
    exact H [] (by simp) ps (fun x hx => hx)
  intro d hd l
  induction l generalizing d with
  | nil => intro _ p hp; exact hd p hp
  | cons x rest ih =>
    intro hl p hp
    simp only [List.foldl_cons] at hp
    apply ih (Py.dictSet d x.1 x.2) ?_ (fun y hy => hl y (List.mem_cons_of_mem _ hy)) p hp
    intro p' hp'
    rcases mem_dictSet d x.1 x.2 p' hp' with h | h | ⟨q, _, h⟩
    · exact hd p' h
    · exact ⟨x, hl x (by simp), by rw [h]⟩
    · exact ⟨x, hl x (by simp), by rw [h]⟩

/-- get-bulk reports nothing the agent did not send. -/
theorem C04_bulkget_no_invention (proto : Proto) (rid : Int) (m : RespMsg) (resp : PduResp)
    (scalars reps : List Oid) (maxList : Int) (out : BulkResult)
    (h : recv proto rid (.ok m) = .ok resp)
    (ho : (bulkget proto scalars reps maxList).result rid (.ok m) = .ok out) :
    ∀ p ∈ out.scalars ++ out.listing, ∃ q ∈ resp.varbinds, q.2 = p.2 := by
  rw [C04_bulkget proto rid m resp scalars reps maxList h] at ho
  split at ho
  · simp at ho
  · simp only [Except.ok.injEq] at ho
    subst ho
    intro p hp
    rcases List.mem_append.mp hp with hp | hp
    · obtain ⟨q, hq, e⟩ := dictOf_values _ p hp
      exact ⟨q, List.mem_of_mem_take hq, e⟩
    · obtain ⟨q, hq, e⟩ := dictOf_values _ p hp
      exact ⟨q, List.mem_of_mem_drop ((List.takeWhile_sublist _).subset hq), e⟩

end Snmp.Props.C04
