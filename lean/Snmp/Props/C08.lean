/-
  C08 — agent error-status always surfaces as the documented exception, never as data.
  Property theorems over `Snmp.Ops` and the *generated* status→class table.
-/
import Snmp.Model.Ops
import Snmp.Props.C07
namespace Snmp.Props.C08
open Snmp Snmp.Ops

/-- The generated table is exactly the documented one: RFC 3416 statuses 1..18 under
    puresnmp's documented class names. -/
theorem C08_table :
    Gen.errorTable = [(1, "TooBig"), (2, "NoSuchOID"), (3, "BadValue"), (4, "ReadOnly"), (5, "GenErr"),
      (6, "NoAccess"), (7, "WrongType"), (8, "WrongLength"), (9, "WrongEncoding"), (10, "WrongValue"),
      (11, "NoCreation"), (12, "InconsistentValue"), (13, "ResourceUnavailable"), (14, "CommitFailed"),
      (15, "UndoFailed"), (16, "AuthorizationError"), (17, "NotWritable"), (18, "InconsistentName")] := by
  decide

/-- Statuses outside 1..18 (19, 255, negative, …) get the generic class carrying the raw status. -/
theorem C08_generic_class (status : Int) (h : status < 1 ∨ 18 < status) :
    errorClass status = "ErrorResponse" := by
  unfold errorClass
  rw [C08_table]
  have : ∀ k : Int, (1 ≤ k ∧ k ≤ 18) → (k == status) = false := by
    intro k hk; simp; omega
  simp [List.find?, this]

/-- The offending OID is the binding selected by error-index when it selects one (1-based),
    and the empty OID for index 0, negative indices and indices beyond the list — including
    the empty binding list of `tooBig`. -/
theorem C08_offending (p : PduResp) :
    (∀ vb, 1 ≤ p.errorIndex → p.varbinds[(p.errorIndex - 1).toNat]? = some vb →
        errorOf p = .errorResponse p.errorStatus (errorClass p.errorStatus) vb.1) ∧
    ((p.errorIndex < 1 ∨ (p.varbinds.length : Int) < p.errorIndex) →
        errorOf p = .errorResponse p.errorStatus (errorClass p.errorStatus) []) := by
  constructor
  · intro vb h1 hvb
    unfold errorOf
    have hlen : (p.errorIndex - 1).toNat < p.varbinds.length := by
      have := List.getElem?_eq_some_iff.mp hvb
      exact this.1
    have : 1 ≤ p.errorIndex ∧ p.errorIndex ≤ p.varbinds.length := by omega
    simp only [if_pos this, hvb]
  · intro h
    unfold errorOf
    have : ¬ (1 ≤ p.errorIndex ∧ p.errorIndex ≤ p.varbinds.length) := by omega
    simp [this]

/-- The rule that picks the offending binding is the one in the source: the condition under which
    `PDU.decode_raw` assigns `varbinds[error_index.value - 1].oid` (translated from the working tree
    on every run, `Gen.errorIndexInRange`) is exactly the model's `1 ≤ error-index ≤ #bindings`. -/
theorem C08_index_rule (p : PduResp) :
    Gen.errorIndexInRange p.errorIndex p.varbinds.length = true ↔
      (1 ≤ p.errorIndex ∧ p.errorIndex ≤ p.varbinds.length) := by
  simp [Gen.errorIndexInRange]

/-- A non-zero error-status never yields data, for every protocol version, whatever the other
    fields (request id, community, version, bindings) are. -/
theorem C08_never_data (proto : Proto) (rid : Int) (m : RespMsg) (p : PduResp)
    (hs : m.pdu.errorStatus ≠ 0) : recv proto rid (.ok m) ≠ .ok p := by
  intro h
  exact hs (C07.recv_ok_pdu proto rid m p h).2

/-- … and it surfaces as exactly the documented exception (for v2c provided the wrapper's
    version and community are the expected ones; for v1 and v3 unconditionally, the PDU being
    forced before any other check). -/
theorem C08_error_surfaces (rid : Int) (m : RespMsg) (community : Bytes) (hs : m.pdu.errorStatus ≠ 0) :
    recv (.v1 community) rid (.ok m) = .error (errorOf m.pdu) ∧
    recv .v3 rid (.ok m) = .error (errorOf m.pdu) ∧
    (m.version = 1 → m.community = community →
      recv (.v2c community) rid (.ok m) = .error (errorOf m.pdu)) := by
  refine ⟨?_, ?_, ?_⟩
  · simp [recv, mpmDecode, forcePdu, bind, Except.bind, hs]
  · simp [recv, mpmDecode, forcePdu, bind, Except.bind, hs]
  · intro hv hc
    simp [recv, mpmDecode, forcePdu, bind, Except.bind, hs, hv, hc]

/-- Every operation inherits it: the call raises that exception and returns nothing. -/
theorem C08_every_operation (proto : Proto) (rid : Int) (m : RespMsg) (e : Err)
    (hr : recv proto rid (.ok m) = .error e)
    (oids : List Oid) (oid : Oid) (vbs : List VarBind) (v : Val) (scalars reps : List Oid) (maxList : Int) :
    (multiget proto oids).result rid (.ok m) = .error e ∧
    (Ops.get proto oid).result rid (.ok m) = .error e ∧
    (multigetnext proto oids).result rid (.ok m) = .error e ∧
    (getnext proto oid).result rid (.ok m) = .error e ∧
    (multiset proto vbs).result rid (.ok m) = .error e ∧
    (Ops.set proto oid v).result rid (.ok m) = .error e ∧
    (bulkget proto scalars reps maxList).result rid (.ok m) = .error e := by
  simp [multiget, Ops.get, multigetnext, getnext, multiset, Ops.set, bulkget, bulkVarbinds, bind, Except.bind, hr]

-- non-vacuity
example : errorOf ⟨1, 2, 3, [([1], .null), ([2], .null)]⟩ = .errorResponse 2 "NoSuchOID" [] := by
  simp [errorOf, errorClass, Gen.errorTable]
example : errorOf ⟨1, 5, 2, [([1], .null), ([2], .null)]⟩ = .errorResponse 5 "GenErr" [2] := by
  simp [errorOf, errorClass, Gen.errorTable]

/-- **From the octets on.**  Whatever community response message an agent writes (`Glue.WritesMsg`: any
    PDU class, bindings and length forms) with the expected version and community and a NON-ZERO
    error-status: every operation of the client raises exactly `errorOf` of the PDU the agent wrote —
    the documented class for the status, the offending OID selected by error-index — and returns nothing. -/
theorem C08_from_wire (e : Ber.Enc) (m : RespMsg) (cls : String) (hw : Glue.WritesMsg e m cls) (community : Bytes) (rid : Int)
    (hver : m.version = 1) (hcom : m.community = community) (hes : m.pdu.errorStatus ≠ 0)
    (fuel depth : Nat) (hwd : e.width ≤ fuel) (hd : e.depth ≤ depth)
    (oids : List Oid) (oid : Oid) (vbs : List VarBind) (v : Val) (scalars reps : List Oid) (maxList : Int) :
    (multiget (.v2c community) oids).result rid (C06.fromWire e.bytes fuel depth) = .error (errorOf m.pdu) ∧
    (Ops.get (.v2c community) oid).result rid (C06.fromWire e.bytes fuel depth) = .error (errorOf m.pdu) ∧
    (multigetnext (.v2c community) oids).result rid (C06.fromWire e.bytes fuel depth) = .error (errorOf m.pdu) ∧
    (getnext (.v2c community) oid).result rid (C06.fromWire e.bytes fuel depth) = .error (errorOf m.pdu) ∧
    (multiset (.v2c community) vbs).result rid (C06.fromWire e.bytes fuel depth) = .error (errorOf m.pdu) ∧
    (Ops.set (.v2c community) oid v).result rid (C06.fromWire e.bytes fuel depth) = .error (errorOf m.pdu) ∧
    (bulkget (.v2c community) scalars reps maxList).result rid (C06.fromWire e.bytes fuel depth) = .error (errorOf m.pdu) := by
  unfold C06.fromWire
  rw [C06.C06_message_readback e m cls hw fuel depth hwd hd]
  exact C08_every_operation (.v2c community) rid m _ ((C08_error_surfaces rid m community hes).2.2 hver hcom)
    oids oid vbs v scalars reps maxList

end Snmp.Props.C08
