/-
  C03 — walks terminate and never re-request, whatever the agent answers.  Property theorems
  about the Python-faithful model (`Snmp.Walk`), for an *arbitrary* exchange function.
-/
import Snmp.Model.Walk
namespace Snmp.Props.C03
open Snmp Snmp.Walk

/-- Whatever the agent answers, a response accepted by the GETNEXT fetcher advances strictly
    beyond every OID it was requested for (position by position). -/
theorem C03_getnext_progress (x : Exchange) (oids : List Oid) (out : List VarBind)
    (h : multigetnext x oids = .ok out) :
    ∀ p ∈ oids.zip out, p.1 < p.2.1 := by
  unfold multigetnext at h
  cases hx : x (.getnext oids) with
  | error e => simp [hx, bind, Except.bind] at h
  | ok resp =>
    simp only [hx, bind, Except.bind] at h
    split at h
    · simp at h
    · split at h
      · rename_i hall
        simp only [pure, Except.pure, Except.ok.injEq] at h
        subst h
        intro p hp
        have := List.all_eq_true.mp hall p hp
        simpa using this
      · simp at h

/-- Column-wise successor check: if it passes, the bindings of every column form a strictly
    increasing chain that starts strictly above the requested OID. Stated as: every accepted
    binding is strictly greater than the entry it replaces in `prev`. -/
theorem checkColumns_first (n : Nat) (prev : List Oid) (i : Nat) (vb : VarBind) (rest : List VarBind)
    (h : checkColumns n prev i (vb :: rest) = true) :
    ∃ p, prev[i % n]? = some p ∧ p < vb.1 ∧
      checkColumns n (prev.set (i % n) vb.1) (i + 1) rest = true := by
  unfold checkColumns at h
  simp only at h
  split at h
  · simp at h
  · rename_i p hp
    split at h
    · rename_i hlt
      exact ⟨p, hp, by simpa using hlt, h⟩
    · simp at h

/-- The bulk fetcher never hands a non-advancing first repetition to the walk loop. -/
theorem C03_bulk_progress_first (x : Exchange) (size : Nat) (oids : List Oid) (vb : VarBind)
    (rest : List VarBind) (h : bulkFetcher x size oids = .ok (vb :: rest)) :
    ∃ p, oids[0 % oids.length]? = some p ∧ p < vb.1 := by
  unfold bulkFetcher at h
  cases hb : bulkVarbinds x [] oids size with
  | error e => simp [hb, bind, Except.bind] at h
  | ok first =>
    simp only [hb, bind, Except.bind] at h
    cases hc' : completeRow x oids oids.length first with
    | error e => simp [hc'] at h
    | ok vbs =>
      simp only [hc'] at h
      split at h
      · rename_i hc
        simp only [pure, Except.pure, Except.ok.injEq] at h
        rw [h] at hc
        obtain ⟨p, hp, hlt, _⟩ := checkColumns_first _ _ _ _ _ hc
        exact ⟨p, hp, hlt⟩
      · simp at h

/-- A fetch that reports a non-advancing answer ends the loop at once: `faulty` in strict
    mode, normal end in lenient mode, and no further request is issued. -/
theorem C03_outcome_on_faulty (fetch : Fetcher) (roots : List Oid) (lenient : Bool) (fuel : Nat)
    (unf : List (Oid × VarBind)) (yielded : List Oid) (ev : List Event)
    (hne : unf ≠ []) (hf : fetch (unf.map (·.2.1)) = .error .faulty) :
    loop fetch roots lenient (fuel + 1) unf yielded ev =
      ⟨ev ++ [.req (unf.map (·.2.1))], if lenient then .done else .error .faulty⟩ := by
  unfold loop
  have : unf.isEmpty = false := by cases unf <;> simp_all
  simp only [this, Bool.false_eq_true, ↓reduceIte, hf, isNoSuchOid]
  cases lenient <;> simp <;> rfl

/-- Same for the very first request of a walk. -/
theorem C03_outcome_on_faulty_first (fetch : Fetcher) (oids : List Oid) (lenient : Bool) (fuel : Nat)
    (hf : fetch (sortOids oids) = .error .faulty) :
    multiwalk fetch oids lenient fuel =
      ⟨[.req (sortOids oids)], if lenient then .done else .error .faulty⟩ := by
  unfold multiwalk
  simp only [hf]
  cases lenient <;> simp <;> rfl

end Snmp.Props.C03
