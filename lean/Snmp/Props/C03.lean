/-
  C03 — walks terminate and never re-request, whatever the agent answers.  Property theorems
  about the Python-faithful model (`Snmp.Walk`), for an *arbitrary* exchange function.
-/
import Snmp.Gen.Facts
import Snmp.Model.Walk
import Snmp.Lemmas.WalkBound
import Snmp.Lemmas.BulkBound
namespace Snmp.Props.C03
open Snmp Snmp.Walk

/-- Whatever the agent answers, a response accepted by the GETNEXT fetcher advances strictly
    beyond every OID it was requested for (position by position). -/
theorem C03_getnext_progress (x : Exchange) (oids : List Oid) (out : List VarBind)
    (h : multigetnext x oids = .ok out) :
    ∀ p ∈ oids.zip out, p.1 < p.2.1 := by
  unfold multigetnext at h
  cases hx : x (.getnext oids) with
  | error e => simp [hx, bind, Except.bind] at h
  | ok resp =>
    simp only [hx, bind, Except.bind] at h
    split at h
    · simp at h
    · split at h
      · rename_i hall
        simp only [pure, Except.pure, Except.ok.injEq] at h
        subst h
        intro p hp
        have := List.all_eq_true.mp hall p hp
        simpa using this
      · simp at h

/-- Column-wise successor check: if it passes, the bindings of every column form a strictly
    increasing chain that starts strictly above the requested OID. Stated as: every accepted
    binding is strictly greater than the entry it replaces in `prev`. -/
theorem checkColumns_first (n : Nat) (prev : List Oid) (i : Nat) (vb : VarBind) (rest : List VarBind)
    (h : checkColumns n prev i (vb :: rest) = true) :
    ∃ p, prev[i % n]? = some p ∧ p < vb.1 ∧
      checkColumns n (prev.set (i % n) vb.1) (i + 1) rest = true := by
  unfold checkColumns at h
  simp only at h
  split at h
  · simp at h
  · rename_i p hp
    split at h
    · rename_i hlt
      exact ⟨p, hp, by simpa using hlt, h⟩
    · simp at h

/-- The bulk fetcher never hands a non-advancing first repetition to the walk loop. -/
theorem C03_bulk_progress_first (x : Exchange) (size : Nat) (oids : List Oid) (vb : VarBind)
    (rest : List VarBind) (h : bulkFetcher x size oids = .ok (vb :: rest)) :
    ∃ p, oids[0 % oids.length]? = some p ∧ p < vb.1 := by
  unfold bulkFetcher at h
  cases hb : bulkVarbinds x [] oids size with
  | error e => simp [hb, bind, Except.bind] at h
  | ok first =>
    simp only [hb, bind, Except.bind] at h
    cases hc' : completeRow x oids oids.length first with
    | error e => simp [hc'] at h
    | ok vbs =>
      simp only [hc'] at h
      split at h
      · rename_i hc
        simp only [pure, Except.pure, Except.ok.injEq] at h
        rw [h] at hc
        obtain ⟨p, hp, hlt, _⟩ := checkColumns_first _ _ _ _ _ hc
        exact ⟨p, hp, hlt⟩
      · simp at h

/-- A fetch that reports a non-advancing answer ends the loop at once: `faulty` in strict
    mode, normal end in lenient mode, and no further request is issued. -/
theorem C03_outcome_on_faulty (fetch : Fetcher) (roots : List Oid) (lenient : Bool) (fuel : Nat)
    (unf : List (Oid × VarBind)) (yielded : List Oid) (ev : List Event)
    (hne : unf ≠ []) (hf : fetch (unf.map (·.2.1)) = .error .faulty) :
    loop fetch roots lenient (fuel + 1) unf yielded ev =
      ⟨ev ++ [.req (unf.map (·.2.1))], if lenient then .done else .error .faulty⟩ := by
  unfold loop
  have : unf.isEmpty = false := by cases unf <;> simp_all
  simp only [this, Bool.false_eq_true, ↓reduceIte, hf, isNoSuchOid]
  cases lenient <;> simp <;> rfl

/-- Same for the very first request of a walk. -/
theorem C03_outcome_on_faulty_first (fetch : Fetcher) (oids : List Oid) (lenient : Bool) (fuel : Nat)
    (hf : fetch (sortOids oids) = .error .faulty) :
    multiwalk fetch oids lenient fuel =
      ⟨[.req (sortOids oids)], if lenient then .done else .error .faulty⟩ := by
  unfold multiwalk
  simp only [hf]
  cases lenient <;> simp <;> rfl

/-- A response of the right length in which some binding (before the first endOfMibView) does not
    advance beyond the OID it answers is refused with `FaultySNMPImplementation`. -/
theorem C03_nonadvancing_is_faulty (x : Exchange) (oids : List Oid) (resp : List VarBind)
    (hx : x (.getnext oids) = .ok resp) (hlen : resp.length = oids.length)
    (hbad : ∃ p ∈ oids.zip (resp.takeWhile notEom), ¬ p.1 < p.2.1) :
    multigetnext x oids = .error .faulty := by
  unfold multigetnext
  simp only [hx, bind, Except.bind, hlen, bne_self_eq_false, Bool.false_eq_true, ↓reduceIte]
  have : ((oids.zip (resp.takeWhile notEom)).all fun p => decide (p.1 < p.2.1)) = false := by
    rw [List.all_eq_false]
    obtain ⟨p, hp, hn⟩ := hbad
    exact ⟨p, hp, by simpa using hn⟩
  simp [this]; rfl

/-- **Bounded, never re-requesting — for ANY agent.**  `x` is an arbitrary exchange function (it may
    repeat OIDs, go backwards, cycle, jump out of the subtree and back, answer endOfMibView
    anywhere, fail); `U` is any list containing every OID it ever returns to a GETNEXT.  For
    pairwise disjoint roots in any order, strict or lenient mode:
    * no OID occurs twice among all the OIDs the walk requests (the client never asks again for an
      OID it has already continued from);
    * every OID requested after the first request was returned by the agent to an earlier request;
    * the number of requests is at most `|U| + 1`;
    * with a loop budget above `|U|` the walk ends by itself (`done` or an error, never the budget). -/
theorem C03_getnext_bound (x : Exchange) (roots : List Oid) (lenient : Bool) (fuel : Nat) (U : List Oid)
    (hpf : PrefixFree roots)
    (hU : ∀ q resp, x (.getnext q) = .ok resp → ∀ vb ∈ resp, vb.1 ∈ U) :
    let r := walkGetnext x roots lenient fuel
    r.requests.flatten.Nodup ∧
    (∀ q ∈ r.requests.tail, ∀ c ∈ q, ∃ q' ∈ r.requests, ∃ resp, x (.getnext q') = .ok resp ∧ c ∈ resp.map (·.1)) ∧
    r.requests.length ≤ U.length + 1 ∧
    (U.length < fuel → r.outcome ≠ .outOfFuel) := by
  intro r
  obtain ⟨more, h1, h2, h3, h4, h5⟩ := multiwalk_bound x roots lenient fuel (prefixFree_sorted roots hpf)
  have hreq : r.requests = sortOids roots :: more := by rw [requests_eq]; exact h1
  have hmoreU : ∀ c ∈ more.flatten, c ∈ U := by
    intro c hc
    obtain ⟨q, hq, hcq⟩ := List.mem_flatten.mp hc
    obtain ⟨q', _, resp, hx, hcr⟩ := (h3 q hq).2 c hcq
    obtain ⟨vb, hvb, rfl⟩ := List.mem_map.mp hcr
    exact hU q' resp hx vb hvb
  have hmore_nodup : more.flatten.Nodup := (List.nodup_append.mp h2).2.1
  have hcount : more.length ≤ U.length :=
    Nat.le_trans (length_le_flatten more (fun q hq => (h3 q hq).1))
      (nodup_subset_length more.flatten U hmore_nodup hmoreU)
  refine ⟨?_, ?_, ?_, ?_⟩
  · rw [hreq]; simpa using h2
  · rw [hreq]
    intro q hq c hc
    exact (h3 q hq).2 c hc
  · rw [hreq]; simp only [List.length_cons]; omega
  · intro hfuel ho
    have := h5 ho
    omega

/-- **The same for the bulk walk — for ANY agent.**  `x` is an arbitrary exchange function, `U` any
    list containing every OID it ever returns to a GETBULK; any repetition count, pairwise disjoint
    roots in any order.  The per-column successor check of the bulk fetcher makes every accepted
    response — any number of repetitions, a partial last one, whatever is in them — advance every
    column (`cc_columns`), hence: no OID occurs twice among the OIDs the walk continues from; every
    OID it continues from after the first request was returned by the agent; at most `|U| + 1`
    fetch rounds; with a loop budget above `|U|` the walk ends by itself. -/
theorem C03_bulk_bound (x : Exchange) (roots : List Oid) (size fuel : Nat) (U : List Oid)
    (hpf : PrefixFree roots)
    (hU : ∀ m q resp, x (.getbulk 0 m q) = .ok resp → ∀ vb ∈ resp, vb.1 ∈ U) :
    let r := walkBulk x size roots fuel
    r.requests.flatten.Nodup ∧
    (∀ q ∈ r.requests.tail, ∀ c ∈ q, c ∈ U) ∧
    r.requests.length ≤ U.length + 1 ∧
    (U.length < fuel → r.outcome ≠ .outOfFuel) := by
  intro r
  obtain ⟨more, h1, h2, h3, h4, h5⟩ := multiwalk_bound_gen (bulkFetcher x size) U
    (bulkFetcher_advancing x size U hU) roots false fuel (prefixFree_sorted roots hpf)
  have hreq : r.requests = sortOids roots :: more := by rw [requests_eq]; exact h1
  have hmoreU : ∀ c ∈ more.flatten, c ∈ U := by
    intro c hc
    obtain ⟨q, hq, hcq⟩ := List.mem_flatten.mp hc
    exact (h3 q hq).2 c hcq
  have hmore_nodup : more.flatten.Nodup := (List.nodup_append.mp h2).2.1
  have hcount : more.length ≤ U.length :=
    Nat.le_trans (length_le_flatten more (fun q hq => (h3 q hq).1))
      (nodup_subset_length more.flatten U hmore_nodup hmoreU)
  refine ⟨?_, ?_, ?_, ?_⟩
  · rw [hreq]; simpa using h2
  · rw [hreq]
    intro q hq c hc
    exact (h3 q hq).2 c hc
  · rw [hreq]; simp only [List.length_cons]; omega
  · intro hfuel ho
    have := h5 ho
    omega

/-- the hypotheses are satisfiable and the bound is tight for an agent that keeps advancing: a
    three-OID universe, one root, three instances — four requests -/
example : PrefixFree [[1,3]] := by unfold PrefixFree; simp


/-- termination rests on these shapes of the code (generated from the AST): the walk loop ends on
    `NoSuchOID` / `FaultySNMPImplementation`, the completion loop of the bulk fetcher ends when a
    completion request returns nothing -/
theorem C03_loop_shapes : Snmp.Gen.walkLoopShape = true ∧ Snmp.Gen.bulkFetcherShape = true := by decide

end Snmp.Props.C03
