/-
  C17 — SNMP application types keep their numeric and conversion semantics.
  Property theorems only.  The constructor bodies are the ones *generated* from the working
  tree (`Snmp.Gen.counter32Init`, `counter64Init`, `ticksOfMicros`).
-/
import Snmp.Gen.Facts
import Snmp.Model.Types
namespace Snmp.Props.C17
open Snmp Snmp.Gen Snmp.Types

private theorem land_mask (v : Int) (k : Nat) (hv : 0 ≤ v) :
    Py.land v (((2 : Nat) ^ k - 1 : Nat) : Int) = v % ((2 : Nat) ^ k : Nat) := by
  obtain ⟨n, rfl⟩ := Int.eq_ofNat_of_zero_le hv
  have := Py.land_mask_nonneg n k
  simpa using this

private theorem land_mask32 (v : Int) (hv : 0 ≤ v) :
    Py.land v 4294967295 = v % 4294967296 := land_mask v 32 hv

private theorem land_mask64 (v : Int) (hv : 0 ≤ v) :
    Py.land v 18446744073709551615 = v % 18446744073709551616 := land_mask v 64 hv

/-- Counter32 built from *any* integer: in range, clamped at 0, identity in range, wrapping
    modulo 2^32 above. -/
theorem C17_counter32 (v : Int) :
    0 ≤ counter32Init v ∧ counter32Init v < 4294967296 ∧
    (v ≤ 0 → counter32Init v = 0) ∧
    (0 ≤ v → v < 4294967296 → counter32Init v = v) ∧
    (4294967296 ≤ v → counter32Init v = v % 4294967296) := by
  unfold counter32Init
  by_cases h : v ≥ 4294967296
  · simp only [if_pos h, land_mask32 v (by omega)]
    refine ⟨?_, ?_, ?_, ?_, ?_⟩ <;> intros <;> split <;> omega
  · simp only [if_neg h, Py.land_self]
    refine ⟨?_, ?_, ?_, ?_, ?_⟩ <;> intros <;> split <;> omega

/-- Counter64, same statement modulo 2^64. -/
theorem C17_counter64 (v : Int) :
    0 ≤ counter64Init v ∧ counter64Init v < 18446744073709551616 ∧
    (v ≤ 0 → counter64Init v = 0) ∧
    (0 ≤ v → v < 18446744073709551616 → counter64Init v = v) ∧
    (18446744073709551616 ≤ v → counter64Init v = v % 18446744073709551616) := by
  unfold counter64Init
  by_cases h : v ≥ 18446744073709551616
  · simp only [if_pos h, land_mask64 v (by omega)]
    refine ⟨?_, ?_, ?_, ?_, ?_⟩ <;> intros <;> split <;> omega
  · simp only [if_neg h, Py.land_self]
    refine ⟨?_, ?_, ?_, ?_, ?_⟩ <;> intros <;> split <;> omega

/-- ticks → timedelta → ticks loses and gains nothing, for every tick count. -/
theorem C17_ticks_roundtrip (t : Int) : ticksOfMicros (ticksToMicros t) = t := by
  unfold ticksOfMicros ticksToMicros; omega

/-- timedelta → ticks → timedelta rounds down to a whole hundredth of a second. -/
theorem C17_ticks_floor (us : Int) :
    ticksToMicros (ticksOfMicros us) ≤ us ∧ us < ticksToMicros (ticksOfMicros us) + 10000 := by
  unfold ticksOfMicros ticksToMicros; omega

/-- IPv4Address → 4 octets → IPv4Address, all 2^32 addresses. -/
theorem C17_ipv4_roundtrip (n : Nat) (h : n < 4294967296) : fromBE (ipToBytes n) = n := by
  simp only [fromBE, ipToBytes, List.foldl_cons, List.foldl_nil]; omega

/-- 4 octets → IPv4Address → 4 octets. -/
theorem C17_ipv4_bytes (a b c d : Nat) (ha : a < 256) (hb : b < 256) (hc : c < 256) (hd : d < 256) :
    ipToBytes (fromBE [a, b, c, d]) = [a, b, c, d] ∧ fromBE [a, b, c, d] < 4294967296 := by
  simp only [fromBE, ipToBytes, List.foldl_cons, List.foldl_nil]
  refine ⟨?_, by omega⟩
  congr 1
  · omega
  · congr 1
    · omega
    · congr 1
      · omega
      · congr 1; omega

-- non-vacuity / sanity on concrete points (tests, labelled as such)
example : counter32Init 4294967338 = 42 := by decide
example : counter32Init (-5) = 0 := by decide
example : counter64Init 36893488147419103274 = 42 := by decide
example : ticksOfMicros (ticksToMicros 29) = 29 := by decide

end Snmp.Props.C17
