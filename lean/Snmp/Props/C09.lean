/-
  C09 — USM: no unauthenticated, altered or downgraded response is ever accepted.
  Model: `Snmp.Usm.processIncoming`, for every MAC, localisation and privacy function.
-/
import Snmp.Gen.Facts
import Snmp.Model.Usm
import Snmp.Model.V3Glue
namespace Snmp.Props.C09
open Snmp Snmp.Usm

/-- what an accepted message went through -/
theorem accepted_steps (cr : Crypto) (c : Creds) (im : InMsg) (s : Spec.ScopedPdu)
    (h : processIncoming cr c im = .ok s) :
    checkUser c im.m = .ok () ∧ verifyAuth cr c im = .ok () ∧ extractScoped cr c im.m = .ok s ∧
    hasUsmError s.pdu = false ∧ checkLevel c im.m = .ok () := by
  unfold processIncoming at h
  cases h0 : shapeCheck im.m with
  | error e => simp [h0] at h
  | ok u0 =>
  simp only [h0] at h
  cases h1 : checkUser c im.m with
  | error e => simp [h1] at h
  | ok u1 =>
    cases h2 : verifyAuth cr c im with
    | error e => simp [h1, h2] at h
    | ok u2 =>
      cases h3 : extractScoped cr c im.m with
      | error e => simp [h1, h2, h3] at h
      | ok s' =>
        simp only [h1, h2, h3] at h
        by_cases he : hasUsmError s'.pdu = true
        · simp [he] at h
        · simp only [he, Bool.false_eq_true, ↓reduceIte] at h
          cases h4 : checkLevel c im.m with
          | error e => simp [h4] at h
          | ok u4 =>
            simp only [h4] at h
            cases h
            exact ⟨rfl, rfl, rfl, by simpa using he, rfl⟩

/-- With an authentication key in the credentials, whatever is accepted carried the auth flag,
    the credential's user name, a 12-octet digest field, and exactly the MAC — under the user's
    localised key — of the octets as received with the digest zeroed.  Nothing else is ever
    returned: no unauthenticated message (Reports included) produces a result. -/
theorem C09_accept_auth (cr : Crypto) (c : Creds) (pw : Bytes) (hc : c.auth = some pw) (im : InMsg)
    (s : Spec.ScopedPdu) (h : processIncoming cr c im = .ok s) :
    authFlag im.m = true ∧ im.m.user = c.user ∧
    ∃ z, im.zeroed = some z ∧ im.m.authParams = cr.mac (cr.loc pw im.m.engineId) z := by
  rcases accepted_steps cr c im s h with ⟨hu, hv, _, _, hl⟩
  have haf : authFlag im.m = true := by
    unfold checkLevel at hl
    by_cases hf : authFlag im.m = true
    · exact hf
    · simp [hc, hf] at hl
  have huser : im.m.user = c.user := by
    unfold checkUser at hu
    by_cases hne : (im.m.user != c.user) = true
    · simp [hne] at hu
    · simpa using hne
  refine ⟨haf, huser, ?_⟩
  unfold verifyAuth at hv
  simp only [haf, Bool.not_true, Bool.false_eq_true, ↓reduceIte, hc] at hv
  cases hz : im.zeroed with
  | none => simp [hz] at hv
  | some z =>
    simp only [hz] at hv
    by_cases hm : (cr.mac (cr.loc pw im.m.engineId) z != im.m.authParams) = true
    · simp [hm] at hv
    · have : cr.mac (cr.loc pw im.m.engineId) z = im.m.authParams := by simpa using hm
      exact ⟨z, rfl, this.symm⟩

/-- With a privacy pass-phrase in the credentials, whatever is accepted carried the priv flag and
    an OCTET STRING payload that the plug-in decrypted under the privacy key localised to the
    engine id found in the message, with the boots / time / salt found in the message; the result
    is the scoped PDU parsed from that plaintext.  A plaintext scoped PDU is never accepted. -/
theorem C09_accept_priv (cr : Crypto) (c : Creds) (pp : Bytes) (hc : c.priv = some pp) (im : InMsg)
    (s : Spec.ScopedPdu) (h : processIncoming cr c im = .ok s) :
    privFlag im.m = true ∧ im.m.dataTag = 4 ∧
    ∃ plain sc rest, cr.dec (cr.loc pp im.m.engineId) im.m.engineId im.m.boots im.m.time im.m.privParams im.m.data = some plain ∧
      Spec.readTLV plain = some (48, sc, rest) ∧ Spec.readScoped sc = some s := by
  rcases accepted_steps cr c im s h with ⟨_, _, hx, _, hl⟩
  have hpf : privFlag im.m = true := by
    unfold checkLevel at hl
    by_cases hf : privFlag im.m = true
    · exact hf
    · simp [hc, hf] at hl
  refine ⟨hpf, ?_⟩
  unfold extractScoped at hx
  by_cases ht : (im.m.dataTag == 4) = true
  · refine ⟨by simpa using ht, ?_⟩
    simp only [ht, hpf, ↓reduceIte, Bool.not_true, Bool.false_eq_true, hc] at hx
    cases hd : cr.dec (cr.loc pp im.m.engineId) im.m.engineId im.m.boots im.m.time im.m.privParams im.m.data with
    | none => simp [hd] at hx
    | some plain =>
      simp only [hd] at hx
      cases hr : Spec.readTLV plain with
      | none => simp [hr] at hx
      | some tr =>
        rcases tr with ⟨t, sc, rest⟩
        by_cases h48 : t = 48
        · subst h48
          simp only [hr] at hx
          cases hsc : Spec.readScoped sc with
          | none => simp [hsc] at hx
          | some s' =>
            simp only [hsc, Except.ok.injEq] at hx
            subst hx
            exact ⟨plain, sc, rest, rfl, hr, hsc⟩
        · exfalso
          rw [hr] at hx
          split at hx
          · rename_i heq; simp at heq; exact h48 heq.1
          · cases hx
  · exfalso
    simp [ht, hpf] at hx

/-- An unauthenticated message can only raise: for a user with an authentication key, a message
    without the auth flag — a Report or anything else — never yields a result. -/
theorem C09_report_only_error (cr : Crypto) (c : Creds) (pw : Bytes) (hc : c.auth = some pw) (im : InMsg)
    (hf : authFlag im.m = false) : ∃ e, processIncoming cr c im = .error e := by
  cases h : processIncoming cr c im with
  | error e => exact ⟨e, rfl⟩
  | ok s =>
    have := (C09_accept_auth cr c pw hc im s h).1
    rw [hf] at this; cases this

/-- Reports about USM errors surface as errors even when they are authentic. -/
theorem C09_usm_report_is_error (cr : Crypto) (c : Creds) (im : InMsg) (s : Spec.ScopedPdu)
    (hx : extractScoped cr c im.m = .ok s) (he : hasUsmError s.pdu = true) :
    ∃ e, processIncoming cr c im = .error e := by
  cases h : processIncoming cr c im with
  | error e => exact ⟨e, rfl⟩
  | ok s' =>
    rcases accepted_steps cr c im s' h with ⟨_, _, hx', he', _⟩
    rw [hx] at hx'; cases hx'
    rw [he] at he'; cases he'

/-- Hence, under the unforgeability hypothesis — the only octet strings whose digest verifies
    under the user's key are the zero-digest forms of messages the authentic agent produced for
    this exchange — an accepted result is the result of an authentic message. -/
theorem C09_same_result (cr : Crypto) (c : Creds) (pw : Bytes) (hc : c.auth = some pw) (im : InMsg)
    (s : Spec.ScopedPdu) (authentic : List InMsg)
    (unforgeable : ∀ z, im.zeroed = some z → im.m.authParams = cr.mac (cr.loc pw im.m.engineId) z →
      ∃ a ∈ authentic, a.zeroed = some z ∧ a.m = im.m)
    (h : processIncoming cr c im = .ok s) :
    ∃ a ∈ authentic, processIncoming cr c a = .ok s := by
  rcases C09_accept_auth cr c pw hc im s h with ⟨_, _, z, hz, hm⟩
  rcases unforgeable z hz hm with ⟨a, ha, haz, ham⟩
  refine ⟨a, ha, ?_⟩
  have : a = im := by
    cases a; cases im; simp_all
  rw [this]; exact h

/-- The same from the octets on: whatever `V3MPM.decode` (glue, `reset_raw_digest`,
    `process_incoming_message`, as modelled from the raw datagram) returns for a user with an
    authentication key was a message whose digest field — located in the datagram as received — is
    the MAC, under the user's localised key, of that datagram with exactly those twelve octets
    zeroed; the flags state authentication and the user name is the credential's. -/
theorem C09_wire_accept_auth (cr : Crypto) (c : Creds) (pw : Bytes) (hc : c.auth = some pw) (data : Bytes) (fuel : Nat)
    (s : Spec.ScopedPdu) (h : V3Glue.incoming cr c data fuel = .ok s) :
    ∃ m z, V3Glue.v3OfBytes data fuel = .ok m ∧ RawDigest.resetRawDigest data = .ok z ∧
      authFlag m = true ∧ m.user = c.user ∧ m.authParams = cr.mac (cr.loc pw m.engineId) z := by
  unfold V3Glue.incoming at h
  cases hm : V3Glue.v3OfBytes data fuel with
  | error e => simp [hm] at h
  | ok m =>
    simp only [hm] at h
    cases hp : processIncoming cr c (inMsgOfWire m data) with
    | error e => simp [hp] at h
    | ok s' =>
      obtain ⟨haf, hu, z, hz, hmac⟩ := C09_accept_auth cr c pw hc (inMsgOfWire m data) s' hp
      refine ⟨m, z, rfl, ?_, haf, hu, hmac⟩
      simp only [inMsgOfWire] at hz
      cases hr : RawDigest.resetRawDigest data with
      | error e => simp [hr] at hz
      | ok z' => simp [hr] at hz; rw [hz]

/-- **The security-level check, generated from `validate_security_level`.**  The sequence of
    `if … : raise UnsupportedSecurityLevel` statements of the source, translated by `tools/extract.py`
    into a Boolean function of the credentials' keys and the incoming flags, refuses exactly what the
    model's `checkLevel` refuses: a message without the auth flag for a user with an authentication
    key, or without the priv flag for a user with a privacy key — so neither flag can be cleared. -/
theorem C09_level_rule (c : Creds) (m : Spec.V3Msg) :
    checkLevel c m = if Snmp.Gen.levelRefused c.auth.isSome c.priv.isSome (authFlag m) (privFlag m) then .error .unsupportedLevel else .ok () := by
  unfold checkLevel Snmp.Gen.levelRefused
  cases c.auth.isSome <;> cases c.priv.isSome <;> cases authFlag m <;> cases privFlag m <;> simp

theorem C09_level_table : ∀ a p fa fp : Bool,
    Snmp.Gen.levelRefused a p fa fp = ((a && !fa) || (p && !fp)) := by decide

end Snmp.Props.C09
