/-
  C16 — table fetches: one row per index, every cell exactly once, both variants agree.
  Model: `Snmp.Table` (tablify as table/bulktable call it); the walk that feeds it is the
  single-root walk of C01/C02.
-/
import Snmp.Lemmas.TableLemmas
import Snmp.Lemmas.WalkAbs
import Snmp.Lemmas.SingleRoot
import Snmp.Props.C01
import Snmp.Props.C02
namespace Snmp.Props.C16
open Snmp Snmp.Table

/-- what a complete walk of `root` delivers: the agent's instances strictly below `root` -/
def tableOf (db : List VarBind) (root : Oid) : List VarBind :=
  db.filter fun e => root.isPrefixOf e.1 && e.1 != root

def SortedDb (db : List VarBind) : Prop := db.Pairwise (fun a b => a.1 < b.1)

/-- SMI guard: column numbers are ≥ 1 (a column numbered 0 would collide with the index key) -/
def ColsPositive (vbs : List VarBind) (n : Nat) : Prop :=
  ∀ vb ∈ vbs, ∀ col id, vb.1.drop n = col :: id → col ≠ 0

theorem good_nil : Good [] := ⟨by simp, by intro _ _ h; cases h⟩

/-- One row per distinct index: for any bindings lying below the table entry, `tablify`
    succeeds, the rows have pairwise distinct indexes, there is a row for an index iff some
    binding carries that index suffix, and every row stores its complete (possibly
    multi-component) index under key `'0'`. -/
theorem C16_rows (vbs : List VarBind) (n : Nat) (hlong : ∀ vb ∈ vbs, n < vb.1.length)
    (hcol : ColsPositive vbs n) :
    ∃ final : Rows, fold n [] vbs = .ok final ∧ tablify vbs n = .ok (final.map (·.2)) ∧
      (final.map (·.1)).Nodup ∧
      (∀ id, id ∈ final.map (·.1) ↔ ∃ vb ∈ vbs, ∃ col, vb.1.drop n = col :: id) ∧
      (∀ id row, (id, row) ∈ final → lookup row 0 = some (.idx id)) := by
  rcases fold_ok_of_long n vbs [] hlong with ⟨final, hf⟩
  have hg := good_fold n vbs [] final good_nil hf hcol
  refine ⟨final, hf, by simp [tablify, hf, Except.map], hg.1, ?_, hg.2⟩
  intro id
  rw [keys_fold n vbs [] final hf id]
  simp

/-- Every cell exactly once, nothing from elsewhere: each binding's value sits in the row of
    its index under its column number, and every value cell of the result is such a binding. -/
theorem C16_cells (vbs : List VarBind) (n : Nat) (final : Rows) (hf : fold n [] vbs = .ok final)
    (hd : (vbs.map (·.1.drop n)).Nodup) :
    (∀ vb ∈ vbs, ∀ col id, vb.1.drop n = col :: id → cellAt final id col = some (.val vb.2)) ∧
    (∀ id k v, cellAt final id k = some (.val v) → ∃ vb ∈ vbs, vb.1.drop n = k :: id ∧ vb.2 = v) := by
  refine ⟨cells_present n vbs [] final hf hd, ?_⟩
  intro id k v hc
  rcases cells_sound n vbs [] final id k v hf hc with h | h
  · simp [cellAt, lookup_nil] at h
  · exact h

theorem mem_tableOf {db : List VarBind} {root : Oid} {e : VarBind} :
    e ∈ tableOf db root ↔ e ∈ db ∧ root <+: e.1 ∧ e.1 ≠ root := by
  simp [tableOf, List.isPrefixOf_iff_prefix]

theorem below_long {root o : Oid} (hp : root <+: o) (hne : o ≠ root) : root.length < o.length := by
  rcases hp with ⟨t, rfl⟩
  cases t with
  | nil => simp at hne
  | cons a t => simp

theorem drop_inj_of_prefix {root a b : Oid} (ha : root <+: a) (hb : root <+: b)
    (h : a.drop root.length = b.drop root.length) : a = b := by
  rcases ha with ⟨ta, rfl⟩
  rcases hb with ⟨tb, rfl⟩
  simp at h
  rw [h]

/-- The table the caller gets for a conformant agent: with the walk delivering the instances
    below the entry (C01/C02), there is exactly one row per index occurring in the agent's
    table, each cell of the agent's table is in its row under its column, and every cell of the
    result is a cell of the agent's table (nothing from outside the table). -/
theorem C16_table_of_db (db : List VarBind) (entry : Oid) (hs : SortedDb db)
    (hcol : ColsPositive (tableOf db entry) entry.length) :
    ∃ final : Rows, tablify (tableOf db entry) entry.length = .ok (final.map (·.2)) ∧
      (final.map (·.1)).Nodup ∧
      (∀ id, id ∈ final.map (·.1) ↔ ∃ e ∈ db, ∃ col, e.1 = entry ++ col :: id) ∧
      (∀ id row, (id, row) ∈ final → lookup row 0 = some (.idx id)) ∧
      (∀ e ∈ db, ∀ col id, e.1 = entry ++ col :: id → cellAt final id col = some (.val e.2)) ∧
      (∀ id k v, cellAt final id k = some (.val v) → ∃ e ∈ db, e.1 = entry ++ k :: id ∧ e.2 = v) := by
  have hlong : ∀ vb ∈ tableOf db entry, entry.length < vb.1.length := by
    intro vb hvb
    rcases mem_tableOf.mp hvb with ⟨_, hp, hne⟩
    exact below_long hp hne
  rcases C16_rows _ _ hlong hcol with ⟨final, hf, ht, hnd, hkeys, hidx⟩
  have hdrop : ∀ e : VarBind, entry <+: e.1 → ∀ col id, (e.1.drop entry.length = col :: id ↔ e.1 = entry ++ col :: id) := by
    intro e hp col id
    rcases hp with ⟨t, ht⟩
    rw [← ht]
    simp
  have hd : ((tableOf db entry).map (·.1.drop entry.length)).Nodup := by
    have hsub : (tableOf db entry).Pairwise (fun a b => a.1 < b.1) := hs.sublist List.filter_sublist
    rw [List.nodup_iff_pairwise_ne, List.pairwise_map]
    have hmem : ∀ x ∈ tableOf db entry, entry <+: x.1 := fun x hx => (mem_tableOf.mp hx).2.1
    refine List.Pairwise.imp_of_mem ?_ hsub
    intro a b ha hb hlt heq
    have := drop_inj_of_prefix (hmem a ha) (hmem b hb) heq
    rw [this] at hlt
    exact List.lt_irrefl _ hlt
  rcases C16_cells _ _ final hf hd with ⟨hpres, hsound⟩
  refine ⟨final, ht, hnd, ?_, hidx, ?_, ?_⟩
  · intro id
    rw [hkeys]
    constructor
    · rintro ⟨vb, hvb, col, hc⟩
      rcases mem_tableOf.mp hvb with ⟨hdb, hp, _⟩
      exact ⟨vb, hdb, col, (hdrop vb hp col id).mp hc⟩
    · rintro ⟨e, he, col, hc⟩
      have hp : entry <+: e.1 := ⟨col :: id, hc.symm⟩
      have hne : e.1 ≠ entry := by
        intro h; rw [h] at hc
        have := congrArg List.length hc; simp at this
      exact ⟨e, mem_tableOf.mpr ⟨he, hp, hne⟩, col, (hdrop e hp col id).mpr hc⟩
  · intro e he col id hc
    have hp : entry <+: e.1 := ⟨col :: id, hc.symm⟩
    have hne : e.1 ≠ entry := by
      intro h; rw [h] at hc
      have := congrArg List.length hc; simp at this
    exact hpres e (mem_tableOf.mpr ⟨he, hp, hne⟩) col id ((hdrop e hp col id).mpr hc)
  · intro id k v hc
    rcases hsound id k v hc with ⟨vb, hvb, h1, h2⟩
    rcases mem_tableOf.mp hvb with ⟨hdb, hp, _⟩
    exact ⟨vb, hdb, (hdrop vb hp k id).mp h1, h2⟩

/-- `table(entry)` tablifies the walk of the entry with `len(entry)` base nodes, `bulktable(tbl)`
    the walk of the table OID with `len(tbl) + 1`.  For an SMI conceptual table (everything the
    agent holds below the table OID lies strictly below its entry arc `tbl.1`) both see the same
    instances and the same number of base nodes, hence return the same rows in the same order. -/
theorem C16_variants_agree (db : List VarBind) (tbl : Oid)
    (hsmi : ∀ e ∈ db, tbl <+: e.1 → e.1 ≠ tbl → (tbl ++ [1]) <+: e.1 ∧ e.1 ≠ tbl ++ [1]) :
    tableOf db tbl = tableOf db (tbl ++ [1]) ∧
    tablify (tableOf db tbl) (tbl.length + 1) = tablify (tableOf db (tbl ++ [1])) (tbl ++ [1]).length := by
  have h : tableOf db tbl = tableOf db (tbl ++ [1]) := by
    unfold tableOf
    apply List.filter_congr
    intro e he
    rw [Bool.eq_iff_iff]
    simp only [Bool.and_eq_true, List.isPrefixOf_iff_prefix, bne_iff_ne, ne_eq]
    constructor
    · rintro ⟨h1, h2⟩; exact hsmi e he h1 h2
    · rintro ⟨⟨t, ht⟩, _⟩
      refine ⟨⟨1 :: t, by rw [← ht]; simp⟩, ?_⟩
      intro heq
      rw [heq] at ht
      have := congrArg List.length ht
      simp at this
  exact ⟨h, by rw [h]; simp⟩

theorem Props_walk1 (l : List Oid) (root : Oid) (hs : WalkAbs.Sorted l) :
    WalkAbs.walk1 l root (l.length + 1) root = (WalkAbs.above l root).takeWhile (inside root) :=
  WalkAbs.walk1_eq l root hs (l.length + 1) root (by
    have : (WalkAbs.above l root).length ≤ l.length := List.length_filter_le _ _
    omega)

theorem lt_append_cons (root : Oid) (b : Nat) (t : List Nat) : root < root ++ b :: t := by
  induction root with
  | nil => simp
  | cons r root ih => simp [ih]

theorem below_filter (root : Oid) (l : List Oid) (hs : WalkAbs.Sorted l) :
    (WalkAbs.above l root).takeWhile (inside root) = l.filter (fun o => root.isPrefixOf o && o != root) := by
  induction l with
  | nil => simp [WalkAbs.above]
  | cons a l ih =>
    have hsl : WalkAbs.Sorted l := (List.pairwise_cons.mp hs).2
    have hal : ∀ x ∈ l, a < x := (List.pairwise_cons.mp hs).1
    have ih := ih hsl
    unfold WalkAbs.above at ih ⊢
    by_cases hra : root < a
    · simp only [List.filter_cons, hra, decide_true, if_true]
      by_cases hin : root <+: a
      · have hne : a ≠ root := fun h => by rw [h] at hra; exact List.lt_irrefl _ hra
        have hb : (root.isPrefixOf a && a != root) = true := by
          simp [List.isPrefixOf_iff_prefix, hin, hne]
        simp only [List.takeWhile_cons, inside, List.isPrefixOf_iff_prefix.mpr hin, if_true]
        rw [← ih]
        simp [hne]
      · have hni : root.isPrefixOf a = false := by
          cases h : root.isPrefixOf a with
          | false => rfl
          | true => exact absurd (List.isPrefixOf_iff_prefix.mp h) hin
        simp only [List.takeWhile_cons, inside, hni, Bool.false_and, Bool.false_eq_true, if_false]
        symm
        rw [List.filter_eq_nil_iff]
        intro x hx
        simp only [Bool.and_eq_true, List.isPrefixOf_iff_prefix, bne_iff_ne, ne_eq, not_and, Decidable.not_not]
        intro hpx
        exfalso
        have h1 : x < a := WalkAbs.sub_lt root a x a hra hin hpx (List.prefix_refl a)
        exact List.lt_asymm h1 (hal x hx)
    · have hb : (root.isPrefixOf a && a != root) = false := by
        cases h : (root.isPrefixOf a && a != root) with
        | false => rfl
        | true =>
          exfalso
          simp only [Bool.and_eq_true, List.isPrefixOf_iff_prefix, bne_iff_ne, ne_eq] at h
          rcases h with ⟨⟨t, rfl⟩, hne⟩
          cases t with
          | nil => simp at hne
          | cons b t => exact hra (lt_append_cons root b t)
      simp only [List.filter_cons, hra, decide_false, Bool.false_eq_true, if_false, hb]
      exact ih

/-- Link to C01: the single-root GETNEXT walk (abstract loop, proved complete and ordered in
    C01) yields exactly the OIDs of `tableOf db root`, in database order. -/
theorem C16_walk_yields_table (db : List VarBind) (root : Oid) (hs : SortedDb db) :
    WalkAbs.walk1 (db.map (·.1)) root ((db.map (·.1)).length + 1) root = (tableOf db root).map (·.1) := by
  have hs' : WalkAbs.Sorted (db.map (·.1)) := by
    unfold WalkAbs.Sorted; rw [List.pairwise_map]; exact hs
  rw [Props_walk1 (db.map (·.1)) root hs', below_filter root _ hs']
  unfold tableOf
  rw [List.filter_map]
  rfl

/- non-vacuity: a sparse two-column table with two-component indexes and neighbours -/
theorem sortedDb_iff (db : List VarBind) : SortedDb db ↔ WalkAbs.Sorted (db.map (·.1)) := by
  unfold SortedDb WalkAbs.Sorted; rw [List.pairwise_map]

theorem tableOf_sorted (db : List VarBind) (root : Oid) (hs : SortedDb db) :
    ((tableOf db root).map (·.1)).Pairwise (· < ·) := by
  rw [List.pairwise_map]
  exact List.Pairwise.filter _ hs

/-- from "complete, sound, ascending, database entries only" to the exact list -/
theorem yields_eq_tableOf (db : List VarBind) (root : Oid) (hs : SortedDb db) (hroot : ∀ e ∈ db, e.1 ≠ root)
    (r : Walk.Result)
    (hcomp : ∀ vb ∈ db, (∃ r0 ∈ [root], r0 <+: vb.1 ∧ vb.1 ≠ r0) → vb ∈ r.yields)
    (hdb : ∀ vb ∈ r.yields, vb ∈ db)
    (hsound : ∀ y ∈ Walk.yieldOids r.events, ∃ r0 ∈ [root], r0 <+: y)
    (hasc : (Walk.yieldOids r.events).Pairwise (· < ·)) :
    r.yields = tableOf db root := by
  have hs' := (sortedDb_iff db).mp hs
  have hyo : Walk.yieldOids r.events = r.yields.map (·.1) := by rw [Walk.yieldOids_eq, Walk.yields_eq]
  apply Walk.keyed_ext db hs' _ _ hdb (fun v hv => (mem_tableOf.mp hv).1)
  rw [← hyo]
  apply Walk.sorted_ext _ _ hasc (tableOf_sorted db root hs)
  intro o
  constructor
  · intro ho
    have ho' := ho
    rw [hyo] at ho'
    obtain ⟨vb, hvb, rfl⟩ := List.mem_map.mp ho'
    obtain ⟨r0, hr0, hpre⟩ := hsound vb.1 ho
    simp only [List.mem_singleton] at hr0
    subst hr0
    exact List.mem_map_of_mem (f := (·.1)) (mem_tableOf.mpr ⟨hdb vb hvb, hpre, hroot vb (hdb vb hvb)⟩)
  · intro ho
    obtain ⟨e, he, rfl⟩ := List.mem_map.mp ho
    obtain ⟨h1, h2, h3⟩ := mem_tableOf.mp he
    rw [hyo]
    exact List.mem_map_of_mem (f := (·.1)) (hcomp e h1 ⟨root, by simp, h2, h3⟩)

/-- **`table(entry)` on the Python-faithful model**: against the conformant agent of any sorted
    database, the GETNEXT walk of the entry ends normally and yields exactly the agent's instances
    below the entry — the same bindings, in database order. -/
theorem C16_getnext_yields (db : List VarBind) (pol : BulkPolicy) (entry : Oid) (lenient : Bool) (fuel : Nat)
    (hs : SortedDb db) (hv : ∀ vb ∈ db, vb.2.isEom = false) (hroot : ∀ e ∈ db, e.1 ≠ entry)
    (hfuel : db.length ≤ fuel) :
    let r := Walk.walkGetnext (Walk.exchangeOf (Agent.conformant db) db pol) [entry] lenient fuel
    r.outcome = .done ∧ r.yields = tableOf db entry := by
  intro r
  have hs' := (sortedDb_iff db).mp hs
  have hpf : Walk.PrefixFree [entry] := by unfold Walk.PrefixFree; simp
  have hc := Snmp.Props.C01.C01_complete db pol [entry] lenient fuel hs' hv hpf hfuel
  have hsn := Snmp.Props.C01.C01_sound_nodup (Walk.multigetnext (Walk.exchangeOf (Agent.conformant db) db pol)) [entry] lenient fuel
  have hasc := Snmp.Props.C01.C01_single_ascending (Walk.exchangeOf (Agent.conformant db) db pol) entry lenient fuel
  exact ⟨hc.1, yields_eq_tableOf db entry hs hroot r hc.2.1 hc.2.2 hsn.2 hasc⟩

/-- **`bulktable(table)` on the Python-faithful model**: the same for the bulk walk, any repetition
    count, any truncation policy of the agent. -/
theorem C16_bulk_yields (db : List VarBind) (pol : BulkPolicy) (tbl : Oid) (size fuel : Nat)
    (hsize : 1 ≤ size) (hs : SortedDb db) (hv : ∀ vb ∈ db, vb.2.isEom = false) (hroot : ∀ e ∈ db, e.1 ≠ tbl)
    (hfuel : db.length ≤ fuel) :
    let r := Walk.walkBulk (Walk.exchangeOf (Agent.conformant db) db pol) size [tbl] fuel
    r.outcome = .done ∧ r.yields = tableOf db tbl := by
  intro r
  have hs' := (sortedDb_iff db).mp hs
  have hpf : Walk.PrefixFree [tbl] := by unfold Walk.PrefixFree; simp
  have hc := Snmp.Props.C02.C02_bulk_complete (Walk.exchangeOf (Agent.conformant db) db pol) db [tbl] size fuel hsize hs' hv
    hpf (by simp) (Walk.exchange_conformantBulk db pol) hfuel
  have hsn := Snmp.Props.C02.C02_bulk_sound_nodup (Walk.exchangeOf (Agent.conformant db) db pol) size [tbl] fuel
  have hasc := Walk.bulk_single_ascending (Walk.exchangeOf (Agent.conformant db) db pol) size tbl fuel
  exact ⟨hc.1, yields_eq_tableOf db tbl hs hroot r hc.2.1 hc.2.2 hsn.2 hasc⟩

/-- **Both fetch variants return the same rows** — as a theorem about the two API paths on the
    faithful model: `table(tbl.1)` (GETNEXT walk of the entry, `len(entry)` base nodes) and
    `bulktable(tbl)` (bulk walk of the table OID, `len(tbl)+1` base nodes) hand `tablify` the same
    bindings in the same order, so they return the same rows in the same order, for every SMI
    conceptual table, repetition count and truncation policy. -/
theorem C16_api_agree (db : List VarBind) (pol : BulkPolicy) (tbl : Oid) (size fuel : Nat) (lenient : Bool)
    (hsize : 1 ≤ size) (hs : SortedDb db) (hv : ∀ vb ∈ db, vb.2.isEom = false)
    (hno : ∀ e ∈ db, e.1 ≠ tbl)
    (hsmi : ∀ e ∈ db, tbl <+: e.1 → e.1 ≠ tbl → (tbl ++ [1]) <+: e.1 ∧ e.1 ≠ tbl ++ [1])
    (hfuel : db.length ≤ fuel) :
    let x := Walk.exchangeOf (Agent.conformant db) db pol
    tablify (Walk.walkGetnext x [tbl ++ [1]] lenient fuel).yields (tbl ++ [1]).length =
      tablify (Walk.walkBulk x size [tbl] fuel).yields (tbl.length + 1) := by
  intro x
  have hno1 : ∀ e ∈ db, e.1 ≠ tbl ++ [1] := by
    intro e he heq
    have hpre : tbl <+: e.1 := by rw [heq]; exact List.prefix_append _ _
    exact (hsmi e he hpre (hno e he)).2 heq
  have h1 := C16_getnext_yields db pol (tbl ++ [1]) lenient fuel hs hv hno1 hfuel
  have h2 := C16_bulk_yields db pol tbl size fuel hsize hs hv hno hfuel
  have h3 := C16_variants_agree db tbl hsmi
  simp only at h1 h2
  rw [h1.2, h2.2]
  exact h3.2.symm

def exDb : List VarBind :=
  [([1,3,1,0], .int 9), ([1,3,2,1,1,5,1], .int 1), ([1,3,2,1,1,5,2], .int 2), ([1,3,2,1,2,5,1], .str [65]), ([1,3,3,0], .int 7)]
example : (tablify (tableOf exDb [1,3,2,1]) 4).toOption.map (·.length) = some 2 := by decide
example : ColsPositive (tableOf exDb [1,3,2,1]) 4 := by
  intro vb hvb col id h
  simp [tableOf, exDb] at hvb
  rcases hvb with rfl | rfl | rfl <;> simp at h <;> omega

end Snmp.Props.C16
