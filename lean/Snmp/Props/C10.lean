/-
  C10 — USM interop: requests verify under RFC 3414, authentic responses are accepted.
  Model: `Snmp.Usm.generate` / `processIncoming`, generated flag code and `is_confirmed` table.
-/
import Snmp.Lemmas.UsmLemmas
import Snmp.Lemmas.RawDigestLemmas
import Snmp.Lemmas.V3GlueLemmas
import Snmp.Lemmas.SpecRaw
import Snmp.Props.C06
namespace Snmp.Props.C10
open Snmp Snmp.Usm Snmp.Ber

/-- msgFlags state exactly the security level of the credentials (generated `V3Flags.__bytes__`) -/
theorem C10_flags (c : Creds) (reportable : Bool) :
    flagsOf c reportable = (if c.auth.isSome then 1 else 0) + (if c.priv.isSome then 2 else 0) + (if reportable then 4 else 0) := by
  unfold flagsOf Gen.flagsEncode
  cases c.auth.isSome <;> cases c.priv.isSome <;> cases reportable <;> decide

/-- confirmed-class requests — get, get-next, get-bulk, set — are marked reportable
    (over the generated list of PDU classes `is_confirmed` accepts) -/
theorem C10_reportable : ∀ k : Ops.ReqKind, isConfirmed k = true := by
  intro k; cases k <;> decide

/-- the security parameters carry the discovered engine id, boots and time and the user name; the
    message id is the request id; the context engine id defaults to the discovered engine id -/
theorem C10_secparams (cr : Crypto) (c : Creds) (d : Disco) (ce cn : Bytes) (r : Ops.PduReq)
    (p : Emit.V3Params) (md dg : Bytes) (h : generate cr c d ce cn r = some (p, md, dg)) :
    p.engineId = d.engineId ∧ p.boots = d.boots ∧ p.time = d.time ∧ p.user = c.user ∧ p.msgId = r.requestId ∧
    p.flags = flagsOf c (isConfirmed r.kind) ∧ p.ctxEngine = (if ce == [] then d.engineId else ce) ∧ p.ctxName = cn ∧
    dg = Emit.v3Around p md := by
  rcases generate_some cr c d ce cn r p md dg h with ⟨spdu, _, _, hp, hdg⟩
  refine ⟨?_, ?_, ?_, ?_, ?_, ?_, ?_, ?_, hdg⟩ <;>
    (rw [hp]; unfold authStep encryptStep baseParams; cases c.auth <;> cases c.priv <;> rfl)

/-- The digest in the datagram is the MAC, under the user's localised key, of the datagram as
    sent with the authentication parameters replaced by twelve zero octets (same message, same
    privacy parameters, same msgData — the ciphertext when privacy is in use). -/
theorem C10_digest_over_sent_bytes (cr : Crypto) (c : Creds) (pw : Bytes) (hc : c.auth = some pw) (d : Disco)
    (ce cn : Bytes) (r : Ops.PduReq) (p : Emit.V3Params) (md dg : Bytes)
    (h : generate cr c d ce cn r = some (p, md, dg)) :
    p.authParams = cr.mac (cr.loc pw d.engineId) (Emit.v3Around { p with authParams := zeros12 } md) ∧
    dg = Emit.v3Around p md := by
  rcases generate_some cr c d ce cn r p md dg h with ⟨spdu, _, _, hp, hdg⟩
  refine ⟨?_, hdg⟩
  rw [hp]
  unfold authStep
  simp only [hc]

/-- a serialisation with a hole for `n` octets: the same prefix and suffix whatever fills it -/
def Hole (n : Nat) (F : Bytes → Bytes) : Prop := ∃ pre post, ∀ ap : Bytes, ap.length = n → F ap = pre ++ ap ++ post

theorem hole_id (n : Nat) : Hole n (fun ap => ap) := ⟨[], [], fun ap _ => by simp⟩

theorem hole_wrap {n : Nat} {F : Bytes → Bytes} (h : Hole n F) (A B : Bytes) : Hole n (fun ap => A ++ F ap ++ B) := by
  rcases h with ⟨pre, post, hF⟩
  exact ⟨A ++ pre, post ++ B, fun ap hap => by show A ++ F ap ++ B = _; rw [hF ap hap]; simp [List.append_assoc]⟩

theorem hole_tlv {n : Nat} {F : Bytes → Bytes} (h : Hole n F) (t : Nat) : Hole n (fun ap => Ber.tlv t (F ap)) := by
  rcases h with ⟨pre, post, hF⟩
  refine ⟨t :: (encodeLength (pre.length + n + post.length) ++ pre), post, fun ap hap => ?_⟩
  show Ber.tlv t (F ap) = _
  rw [hF ap hap]
  simp [Ber.tlv, hap, List.append_assoc, Nat.add_assoc]

/-- The datagram and the MAC input differ only in the twelve digest octets: there are a prefix
    and a suffix, the same for every 12-octet authentication parameter — zeroing the digest octets
    of the datagram in place yields exactly the octets the digest was computed over. -/
theorem C10_digest_in_place (p : Emit.V3Params) (md : Bytes) :
    ∃ pre post, ∀ ap : Bytes, ap.length = 12 →
      Emit.v3Around { p with authParams := ap } md = pre ++ ap ++ post := by
  have h0 := hole_tlv (hole_id 12) 4
  have h1 := hole_wrap h0 (Ber.tlv 4 p.engineId ++ (Ber.tlv 2 (intEncode p.boots) ++ (Ber.tlv 2 (intEncode p.time) ++ Ber.tlv 4 p.user)))
    (Ber.tlv 4 p.privParams)
  have h2 := hole_tlv (hole_tlv h1 48) 4
  have h3 := hole_wrap h2 (Ber.tlv 2 (intEncode 3) ++ encodeHeader p.msgId p.maxSize p.flags 3) md
  have h4 := hole_tlv h3 48
  rcases h4 with ⟨pre, post, h⟩
  refine ⟨pre, post, fun ap hap => ?_⟩
  rw [← h ap hap]
  simp [Emit.v3Around, encodeV3Msg, encodeUsmParams, List.append_assoc]

/-- An authentic response — the credential's user name, flags stating the credentials' level,
    the digest the agent computed over the octets it sent, the payload encrypted by the same
    plug-in when privacy is in use, no USM error report — is accepted and decoded to its content,
    whatever its total / scoped-PDU / PDU length. -/
theorem C10_accepts_authentic (cr : Crypto) (c : Creds) (im : InMsg) (s : Spec.ScopedPdu)
    (huser : im.m.user = c.user)
    (hauthf : authFlag im.m = c.auth.isSome) (hprivf : privFlag im.m = c.priv.isSome)
    (hdigest : ∀ pw, c.auth = some pw → ∃ z, im.zeroed = some z ∧ im.m.authParams = cr.mac (cr.loc pw im.m.engineId) z)
    (hpayload : extractScoped cr c im.m = .ok s) (hnoerr : hasUsmError s.pdu = false) :
    processIncoming cr c im = .ok s := by
  unfold processIncoming
  have h0 : shapeCheck im.m = .ok () := by
    unfold shapeCheck
    by_cases ht : (im.m.dataTag == 4) = true
    · have : privFlag im.m = true := by
        by_cases hp : privFlag im.m = true
        · exact hp
        · exfalso; unfold extractScoped at hpayload; simp [ht, hp] at hpayload
      simp [this]
    · simp [ht]
  have h1 : checkUser c im.m = .ok () := by simp [checkUser, huser]
  have h2 : verifyAuth cr c im = .ok () := by
    unfold verifyAuth
    cases ha : c.auth with
    | none => simp [hauthf, ha]
    | some pw =>
      rcases hdigest pw ha with ⟨z, hz, hm⟩
      simp [hauthf, ha, hz, hm]
  have h4 : checkLevel c im.m = .ok () := by
    unfold checkLevel
    rw [hauthf, hprivf]
    cases c.auth.isSome <;> cases c.priv.isSome <;> rfl
  simp [h0, h1, h2, hpayload, hnoerr, h4]

/-! ### key derivation (RFC 3414 A.2) -/

theorem flatten_replicate_getElem? (pw : Bytes) (hne : pw ≠ []) (k i : Nat) (hi : i < k * pw.length) :
    ((List.replicate k pw).flatten)[i]? = pw[i % pw.length]? := by
  induction k generalizing i with
  | zero => simp at hi
  | succ k ih =>
    have hpos : 0 < pw.length := List.length_pos_iff.mpr hne
    rw [List.replicate_succ, List.flatten_cons]
    by_cases hlt : i < pw.length
    · rw [List.getElem?_append_left hlt, Nat.mod_eq_of_lt hlt]
    · have hge : pw.length ≤ i := by omega
      rw [List.getElem?_append_right hge]
      have : i - pw.length < k * pw.length := by
        rw [Nat.succ_mul] at hi; omega
      rw [ih (i - pw.length) this]
      congr 1
      rw [Nat.mod_eq_sub_mod hge]

/-- The expansion buffer has exactly `n` octets and its `i`-th octet is the `(i mod |password|)`-th
    octet of the password — the 1 MiB buffer of RFC 3414 A.2 for every non-empty password, also
    when its length does not divide 2^20. -/
theorem C10_expand (pw : Bytes) (hne : pw ≠ []) (n : Nat) :
    (expand pw n).length = n ∧ ∀ i, i < n → (expand pw n)[i]? = pw[i % pw.length]? := by
  have hpos : 0 < pw.length := List.length_pos_iff.mpr hne
  have hlen : ((List.replicate (n / pw.length + 1) pw).flatten).length = (n / pw.length + 1) * pw.length := by
    simp [List.length_flatten, List.map_replicate, List.sum_replicate_nat]
  have hbig : n ≤ (n / pw.length + 1) * pw.length := by
    have := Nat.div_add_mod n pw.length
    have := Nat.mod_lt n hpos
    rw [Nat.succ_mul]
    have h3 : pw.length * (n / pw.length) = n / pw.length * pw.length := Nat.mul_comm _ _
    omega
  constructor
  · unfold expand; rw [List.length_take, hlen]; omega
  · intro i hi
    unfold expand
    rw [List.getElem?_take_of_lt hi]
    exact flatten_replicate_getElem? pw hne _ i (by omega)

/-- the localisation buffer is `Ku ++ engineId ++ Ku` with the digest-sized `Ku` -/
theorem C10_localise (ku : Bytes) (padding : Nat) (eid : Bytes) (h : ku.length = padding) :
    localiseBuffer ku padding eid = ku ++ eid ++ ku := by
  unfold localiseBuffer
  rw [← h, List.take_length]

/-- The usmStats counters are ordinary objects: only a Report-PDU (tag octet 0xA8) is searched for
    them (`validate_usm_message`, guard generated into `Gen.usmErrorPduTags`). -/
theorem C10_only_reports_searched (p : Spec.Pdu) (h : p.tag ≠ 168) : hasUsmError p = false := by
  have : usmErrorPdu p.tag = false := by
    simp [usmErrorPdu, Gen.usmErrorPduTags, h]
  simp [hasUsmError, this]

/-- Hence an authentic response (any PDU but a Report) is accepted and decoded to its content
    whatever objects it carries — the agent's own usmStats counters included. -/
theorem C10_accepts_counters (cr : Crypto) (c : Creds) (im : InMsg) (s : Spec.ScopedPdu)
    (huser : im.m.user = c.user)
    (hauthf : authFlag im.m = c.auth.isSome) (hprivf : privFlag im.m = c.priv.isSome)
    (hdigest : ∀ pw, c.auth = some pw → ∃ z, im.zeroed = some z ∧ im.m.authParams = cr.mac (cr.loc pw im.m.engineId) z)
    (hpayload : extractScoped cr c im.m = .ok s) (hresp : s.pdu.tag ≠ 168) :
    processIncoming cr c im = .ok s :=
  C10_accepts_authentic cr c im s huser hauthf hprivf hdigest hpayload (C10_only_reports_searched s.pdu hresp)

/-- non-vacuity: a GetResponse carrying usmStatsNotInTimeWindows is not an error; the same
    bindings in a Report are -/
example : hasUsmError { tag := 162, requestId := 1, a := 0, b := 0, varbinds := [([1, 3, 6, 1, 6, 3, 15, 1, 1, 2, 0], .counter32 7)] } = false
    ∧ hasUsmError { tag := 168, requestId := 1, a := 0, b := 0, varbinds := [([1, 3, 6, 1, 6, 3, 15, 1, 1, 2, 0], .counter32 7)] } = true := by
  decide

/-- `reset_raw_digest` (index arithmetic with `get_value_slice`, mirrored) on EVERY datagram of the
    SNMPv3 shape — any identifier octets, any admissible definite length form at each of the ten
    TLVs it passes, any contents, anything after the message: when the fifth field of the security
    parameters has 12 octets, exactly these are replaced by zeroes and every other octet is kept;
    otherwise the message is refused. (The 127-octet defect `87299d4` was a re-encoding at this
    place; the window is now located in the octets as received.) -/
theorem C10_raw_digest_window (s : RawDigest.Shape) (p : RawDigest.Parts) (d : Bytes) (hok : s.ok p d) :
    RawDigest.resetRawDigest (RawDigest.wire s p d) =
      if d.length = 12 then .ok (RawDigest.wire s p RawDigest.zeros12) else .error .digestLength :=
  RawDigest.reset_wire s p d hok

/-- An authentic response as it arrives: the agent computed the digest over its datagram with
    twelve zero octets in the digest field (RFC 3414 §6.3.1) and sent it with the digest filled
    in, in whatever length forms it likes.  What `verify_authentication` compares is exactly that,
    so the message is accepted and decoded to its content. -/
theorem C10_accepts_wire (cr : Crypto) (c : Creds) (m : Spec.V3Msg) (sc : Spec.ScopedPdu)
    (s : RawDigest.Shape) (p : RawDigest.Parts) (d : Bytes) (hok : s.ok p d)
    (huser : m.user = c.user)
    (hauthf : authFlag m = c.auth.isSome) (hprivf : privFlag m = c.priv.isSome)
    (hfield : m.authParams = d)
    (hagent : ∀ pw, c.auth = some pw → d = cr.mac (cr.loc pw m.engineId) (RawDigest.wire s p RawDigest.zeros12) ∧ d.length = 12)
    (hpayload : extractScoped cr c m = .ok sc) (hnoerr : hasUsmError sc.pdu = false) :
    processIncoming cr c (inMsgOfWire m (RawDigest.wire s p d)) = .ok sc := by
  apply C10_accepts_authentic cr c _ sc huser hauthf hprivf _ hpayload hnoerr
  intro pw hpw
  rcases hagent pw hpw with ⟨hmac, hlen⟩
  refine ⟨RawDigest.wire s p RawDigest.zeros12, ?_, ?_⟩
  · simp [inMsgOfWire, RawDigest.reset_wire s p d hok, hlen]
  · show m.authParams = _
    rw [hfield]; exact hmac

/-- non-vacuity of the shape: the smallest SNMPv3 skeleton (minimal length octets, a 12-octet
    digest) meets the hypotheses -/
example : RawDigest.Shape.ok
      ⟨.minimal, .minimal, .minimal, .minimal, .minimal, .minimal, .minimal, .minimal, .minimal, .minimal, 48, 2, 48, 4, 48, 4, 2, 2, 4, 4⟩
      ⟨[3], [], [], [0], [0], [], [4, 0], [48, 0], []⟩ (List.replicate 12 7) := by
  simp [RawDigest.Shape.ok, LenForm.ok, RawDigest.body, RawDigest.sec, RawDigest.inner, Spec.tlv, specLength]

/-- **From the octets to the fields.**  `Message.decode` + `USMSecurityParameters.decode` (modelled
    over the x690 mirror with its laziness: `V3Glue.v3OfBytes`) on EVERY well-formed SNMPv3 message
    — any admissible definite length form at each of the 21 TLVs of the wrapper, any contents,
    anything behind the message — yield msgID, msgMaxSize, msgFlags, msgSecurityModel and the six USM
    parameters exactly as written; msgData is what `payloadOf` makes of it (next two theorems). -/
theorem C10_fields_from_wire (G : V3Glue.MsgForms) (F : V3Glue.ParamForms) (h : V3Glue.HdrC) (p : UsmParams.Params)
    (boots time : Bytes) (pl : RawTlv) (trailing : Bytes) (fuel : Nat) (dt : Nat) (dc : Bytes)
    (hok : G.ok F h p boots time pl) (hF : F.ok p boots time)
    (hb : p.boots = intDecode true boots) (ht : p.time = intDecode true time)
    (hpay : V3Glue.payloadOf (V3Glue.v3wire G F h p boots time pl trailing) (fromBE h.flg)
      (V3Glue.plNode G F h p boots time pl) fuel = .ok (dt, dc))
    (hfuel : 5 ≤ fuel) :
    V3Glue.v3OfBytes (V3Glue.v3wire G F h p boots time pl trailing) fuel =
      .ok ⟨intDecode true h.mid, intDecode true h.mms, fromBE h.flg, intDecode true h.mdl,
           p.engineId, p.boots, p.time, p.user, p.auth, p.priv, dt, dc⟩ :=
  V3Glue.v3OfBytes_wire G F h p boots time pl trailing fuel dt dc hok hF hb ht hpay hfuel

/-- msgData with the priv flag set is kept as it is (identifier octet 4 for an OCTET STRING) … -/
theorem C10_payload_encrypted (G : V3Glue.MsgForms) (F : V3Glue.ParamForms) (h : V3Glue.HdrC) (p : UsmParams.Params)
    (boots time : Bytes) (fpl : LenForm) (cipher trailing : Bytes) (fuel flags : Nat) (hpriv : flags / 2 % 2 = 1) :
    V3Glue.payloadOf (V3Glue.v3wire G F h p boots time (V3Glue.tStr fpl cipher) trailing) flags
      (V3Glue.plNode G F h p boots time (V3Glue.tStr fpl cipher)) fuel = .ok (4, cipher) := by
  have := V3Glue.payload_priv G F h p boots time (V3Glue.tStr fpl cipher) trailing fuel flags hpriv
  rw [this]
  have h4 : UsmParams.isInstance (lookup (V3Glue.tStr fpl cipher).t).name "OctetString" = true := by
    show UsmParams.isInstance (lookup 4).name "OctetString" = true
    rw [V3Glue.look.2.1]; decide
  simp only [V3Glue.tStr]
  congr 2
  exact ite_self 4

/-- … and a plain scoped PDU — context engine id, context name and a PDU, each in any form — reaches
    the strict reader as these three with minimal length octets. -/
theorem C10_payload_plain (G : V3Glue.MsgForms) (F : V3Glue.ParamForms) (h : V3Glue.HdrC) (p : UsmParams.Params)
    (boots time : Bytes) (fpl : LenForm) (ce cn pdu : RawTlv) (trailing : Bytes) (fuel flags : Nat)
    (hplain : flags / 2 % 2 = 0) (hoks : ∀ y ∈ [ce, cn, pdu], y.ok) (hfuel : 2 ≤ fuel) :
    V3Glue.payloadOf (V3Glue.v3wire G F h p boots time (V3Glue.tSeq fpl (rawBytes [ce, cn, pdu])) trailing) flags
        (V3Glue.plNode G F h p boots time (V3Glue.tSeq fpl (rawBytes [ce, cn, pdu]))) fuel
      = .ok (48, Ber.tlv 4 ce.c ++ Ber.tlv 4 cn.c ++ Ber.tlv pdu.t pdu.c) :=
  V3Glue.payload_plain G F h p boots time fpl ce cn pdu trailing fuel flags hplain hoks hfuel

/-! ### the whole incoming path, from the datagram -/

/-- the shape `reset_raw_digest` walks through, for a message written by `V3Glue.v3wire` -/
def shapeOf (G : V3Glue.MsgForms) (F : V3Glue.ParamForms) : RawDigest.Shape :=
  ⟨G.f0, G.fv, G.fh, G.fsp, G.fsi, F.fe, F.fb, F.ft, F.fu, F.fa, 48, 2, 48, 4, 48, 4, 2, 2, 4, 4⟩

def partsOf (G : V3Glue.MsgForms) (F : V3Glue.ParamForms) (h : V3Glue.HdrC) (p : UsmParams.Params) (boots time : Bytes)
    (pl : RawTlv) (trailing : Bytes) : RawDigest.Parts :=
  ⟨h.ver, rawBytes (V3Glue.hdrItems G h), p.engineId, boots, time, p.user, (V3Glue.tStr F.fp p.priv).bytes, pl.bytes, trailing⟩

theorem inner_eq (G : V3Glue.MsgForms) (F : V3Glue.ParamForms) (h : V3Glue.HdrC) (p : UsmParams.Params) (boots time : Bytes)
    (pl : RawTlv) (trailing : Bytes) :
    RawDigest.inner (shapeOf G F) (partsOf G F h p boots time pl trailing) p.auth = rawBytes (V3Glue.paramItems F p boots time) := by
  simp [RawDigest.inner, shapeOf, partsOf, V3Glue.paramItems, rawBytes, RawTlv.bytes, V3Glue.tStr, V3Glue.tInt, List.append_assoc]

theorem sec_eq (G : V3Glue.MsgForms) (F : V3Glue.ParamForms) (h : V3Glue.HdrC) (p : UsmParams.Params) (boots time : Bytes)
    (pl : RawTlv) (trailing : Bytes) :
    RawDigest.sec (shapeOf G F) (partsOf G F h p boots time pl trailing) p.auth = V3Glue.spBlock G F p boots time := by
  simp only [RawDigest.sec, inner_eq, V3Glue.spBlock]
  rfl

theorem body_eq (G : V3Glue.MsgForms) (F : V3Glue.ParamForms) (h : V3Glue.HdrC) (p : UsmParams.Params) (boots time : Bytes)
    (pl : RawTlv) (trailing : Bytes) :
    RawDigest.body (shapeOf G F) (partsOf G F h p boots time pl trailing) p.auth
      = rawBytes (V3Glue.msgItems G F h p boots time pl) := by
  simp only [RawDigest.body, sec_eq]
  simp [shapeOf, partsOf, V3Glue.msgItems, rawBytes, RawTlv.bytes, V3Glue.tStr, V3Glue.tInt, V3Glue.tSeq, List.append_assoc]

theorem v3wire_eq_wire (G : V3Glue.MsgForms) (F : V3Glue.ParamForms) (h : V3Glue.HdrC) (p : UsmParams.Params) (boots time : Bytes)
    (pl : RawTlv) (trailing : Bytes) :
    V3Glue.v3wire G F h p boots time pl trailing
      = RawDigest.wire (shapeOf G F) (partsOf G F h p boots time pl trailing) p.auth := by
  simp only [RawDigest.wire, body_eq, V3Glue.v3wire]
  rfl

theorem shape_ok (G : V3Glue.MsgForms) (F : V3Glue.ParamForms) (h : V3Glue.HdrC) (p : UsmParams.Params) (boots time : Bytes)
    (pl : RawTlv) (trailing : Bytes) (hok : G.ok F h p boots time pl) (hF : F.ok p boots time) :
    (shapeOf G F).ok (partsOf G F h p boots time pl trailing) p.auth := by
  obtain ⟨h0, hv, hh, _, _, _, _, hsp, hsi, _⟩ := hok
  obtain ⟨he, hbo, hti, hu, ha, _⟩ := hF
  refine ⟨?_, hv, hh, ?_, ?_, he, hbo, hti, hu, ha⟩
  · rw [body_eq]; exact h0
  · rw [sec_eq]; exact hsp
  · rw [inner_eq]; exact hsi

/-- **An authentic response is accepted, from the octets on.**  The agent writes an SNMPv3 message —
    any admissible definite length form at every level, anything behind it — whose digest field
    holds the MAC, under the user's localised key, of the same datagram with twelve zero octets in
    that field; user name and msgFlags are those of the credentials; msgData is what the payload
    step hands on (`hpay`) and the USM payload processing reads `sc` from it without a USM error
    report, `sc` carrying a PDU.  Then `V3MPM.decode` as modelled from the raw datagram — glue
    (`Message.decode`, `USMSecurityParameters.decode`), `reset_raw_digest`, `process_incoming_message`
    — returns exactly `sc`. -/
theorem C10_accepts_datagram (cr : Crypto) (c : Creds)
    (G : V3Glue.MsgForms) (F : V3Glue.ParamForms) (h : V3Glue.HdrC) (p : UsmParams.Params) (boots time : Bytes)
    (pl : RawTlv) (trailing : Bytes) (fuel : Nat) (dt : Nat) (dc : Bytes) (sc : Spec.ScopedPdu)
    (hok : G.ok F h p boots time pl) (hF : F.ok p boots time)
    (hb : p.boots = intDecode true boots) (ht : p.time = intDecode true time) (hfuel : 5 ≤ fuel)
    (hpay : V3Glue.payloadOf (V3Glue.v3wire G F h p boots time pl trailing) (fromBE h.flg)
      (V3Glue.plNode G F h p boots time pl) fuel = .ok (dt, dc))
    (huser : p.user = c.user)
    (hauthf : (fromBE h.flg % 2 == 1) = c.auth.isSome) (hprivf : (fromBE h.flg / 2 % 2 == 1) = c.priv.isSome)
    (hagent : ∀ pw, c.auth = some pw → p.auth.length = 12 ∧
      p.auth = cr.mac (cr.loc pw p.engineId)
        (V3Glue.v3wire G F h { p with auth := RawDigest.zeros12 } boots time pl trailing))
    (hpayload : extractScoped cr c ⟨intDecode true h.mid, intDecode true h.mms, fromBE h.flg, intDecode true h.mdl,
        p.engineId, p.boots, p.time, p.user, p.auth, p.priv, dt, dc⟩ = .ok sc)
    (hnoerr : hasUsmError sc.pdu = false) (hpdu : (lookup sc.pdu.tag).kind = "pdu") :
    V3Glue.incoming cr c (V3Glue.v3wire G F h p boots time pl trailing) fuel = .ok sc := by
  unfold V3Glue.incoming
  rw [V3Glue.v3OfBytes_wire G F h p boots time pl trailing fuel dt dc hok hF hb ht hpay hfuel]
  simp only
  have hacc : processIncoming cr c (inMsgOfWire ⟨intDecode true h.mid, intDecode true h.mms, fromBE h.flg, intDecode true h.mdl,
      p.engineId, p.boots, p.time, p.user, p.auth, p.priv, dt, dc⟩ (V3Glue.v3wire G F h p boots time pl trailing)) = .ok sc := by
    refine C10_accepts_authentic cr c (inMsgOfWire ⟨intDecode true h.mid, intDecode true h.mms, fromBE h.flg, intDecode true h.mdl,
      p.engineId, p.boots, p.time, p.user, p.auth, p.priv, dt, dc⟩ (V3Glue.v3wire G F h p boots time pl trailing)) sc
      huser hauthf hprivf ?_ hpayload hnoerr
    intro pw hpw
    obtain ⟨hlen, hmac⟩ := hagent pw hpw
    refine ⟨V3Glue.v3wire G F h { p with auth := RawDigest.zeros12 } boots time pl trailing, ?_, hmac⟩
    have hw := v3wire_eq_wire G F h p boots time pl trailing
    have hw0 := v3wire_eq_wire G F h { p with auth := RawDigest.zeros12 } boots time pl trailing
    have hparts : partsOf G F h { p with auth := RawDigest.zeros12 } boots time pl trailing = partsOf G F h p boots time pl trailing := rfl
    rw [hparts] at hw0
    simp only [inMsgOfWire]
    rw [hw, RawDigest.reset_wire _ _ _ (shape_ok G F h p boots time pl trailing hok hF), hw0]
    simp [hlen]
  rw [hacc]
  simp [hpdu]


/-- **An authentic response carrying any PDU the agent writes, from the octets on** (no privacy).
    The three layers composed: the scoped PDU holds context engine id, context name and a PDU written
    in any admissible length forms with any bindings (`Glue.WritesPdu`, standard identifier octets for
    binding list and bindings, not a Report); the wrapper is in any length forms, anything may follow
    the message; the digest field holds the MAC of the datagram with that field zeroed.  Then
    `V3MPM.decode` as modelled from the raw datagram returns the scoped PDU whose PDU is exactly the
    record the agent meant — request-id, error fields and bindings — which is also what
    `PDU.decode_raw` reads from the same octets (`C06_v3_pdu_readback`). -/
theorem C10_accepts_written_pdu (cr : Crypto) (c : Creds)
    (G : V3Glue.MsgForms) (F : V3Glue.ParamForms) (h : V3Glue.HdrC) (p : UsmParams.Params) (boots time : Bytes)
    (fpl fe fn : LenForm) (e nm : Bytes) (ep : Enc) (cls : String) (pr : Ops.PduResp) (trailing : Bytes) (fuel : Nat)
    (hw : Glue.WritesPdu ep cls pr) (hstd : Glue.StdPdu ep)
    (hok : G.ok F h p boots time (V3Glue.tSeq fpl (rawBytes [V3Glue.tStr fe e, V3Glue.tStr fn nm, Glue.rawOf ep])))
    (hF : F.ok p boots time) (hb : p.boots = intDecode true boots) (ht : p.time = intDecode true time) (hfuel : 5 ≤ fuel)
    (hfe : fe.ok e.length) (hfn : fn.ok nm.length)
    (hs : Spec.Small e.length ∧ Spec.Small nm.length ∧ Spec.Small (Glue.rawOf ep).c.length)
    (hplain : fromBE h.flg / 2 % 2 = 0) (huser : p.user = c.user)
    (hauthf : (fromBE h.flg % 2 == 1) = c.auth.isSome) (hprivf : (fromBE h.flg / 2 % 2 == 1) = c.priv.isSome)
    (hagent : ∀ pw, c.auth = some pw → p.auth.length = 12 ∧
      p.auth = cr.mac (cr.loc pw p.engineId)
        (V3Glue.v3wire G F h { p with auth := RawDigest.zeros12 } boots time
          (V3Glue.tSeq fpl (rawBytes [V3Glue.tStr fe e, V3Glue.tStr fn nm, Glue.rawOf ep])) trailing))
    (hnotreport : usmErrorPdu (Glue.rawOf ep).t = false) :
    V3Glue.incoming cr c (V3Glue.v3wire G F h p boots time
        (V3Glue.tSeq fpl (rawBytes [V3Glue.tStr fe e, V3Glue.tStr fn nm, Glue.rawOf ep])) trailing) fuel
      = .ok ⟨e, nm, ⟨(Glue.rawOf ep).t, pr.requestId, pr.errorStatus, pr.errorIndex, pr.varbinds⟩⟩ := by
  obtain ⟨⟨hwf, _⟩, hscoped⟩ := C06.C06_v3_pdu_readback ep cls pr hw hstd e nm hs
  have hkind : (lookup (Glue.rawOf ep).t).kind = "pdu" := by
    obtain ⟨f, t, fl, tl, erid, ees, eei, items, rfl, _, _, hk, _⟩ := hw
    exact hk
  have hrawok : (Glue.rawOf ep).ok := by
    obtain ⟨f, t, fl, tl, erid, ees, eei, items, rfl, _⟩ := hw
    simp only [Enc.WF] at hwf
    exact ⟨hwf.1, hwf.2.1⟩
  have hoks : ∀ y ∈ [V3Glue.tStr fe e, V3Glue.tStr fn nm, Glue.rawOf ep], y.ok := by
    intro y hy
    simp only [List.mem_cons, List.not_mem_nil, or_false] at hy
    rcases hy with rfl | rfl | rfl
    · exact V3Glue.ok_of_form _ 4 _ hfe (by simp)
    · exact V3Glue.ok_of_form _ 4 _ hfn (by simp)
    · exact hrawok
  have hpay := C10_payload_plain G F h p boots time fpl (V3Glue.tStr fe e) (V3Glue.tStr fn nm) (Glue.rawOf ep) trailing fuel
    (fromBE h.flg) hplain hoks (by omega)
  simp only [V3Glue.tStr] at hpay
  refine C10_accepts_datagram cr c G F h p boots time _ trailing fuel 48 _ _ hok hF hb ht hfuel hpay huser hauthf hprivf hagent ?_ ?_ hkind
  · -- the payload step: plain scoped PDU, read by the strict reader
    unfold extractScoped
    have hpf : privFlag ⟨intDecode true h.mid, intDecode true h.mms, fromBE h.flg, intDecode true h.mdl,
        p.engineId, p.boots, p.time, p.user, p.auth, p.priv, 48,
        Ber.tlv 4 e ++ Ber.tlv 4 nm ++ Ber.tlv (Glue.rawOf ep).t (Glue.rawOf ep).c⟩ = false := by
      simp [privFlag, hplain]
    simp only [hpf, hscoped]
    simp
  · simp [hasUsmError, hnotreport]

/-- non-vacuity: a noAuthNoPriv response with minimal length octets meets the well-formedness
    hypotheses of `C10_fields_from_wire` / `C10_accepts_datagram`, and its payload step is the plain one -/
example :
    let G : V3Glue.MsgForms := ⟨.minimal, .minimal, .minimal, .minimal, .minimal, .minimal, .minimal, .minimal, .minimal⟩
    let F : V3Glue.ParamForms := ⟨.minimal, .minimal, .minimal, .minimal, .minimal, .minimal⟩
    let h : V3Glue.HdrC := ⟨[3], [1], [0, 255, 227], [0], [3]⟩
    let p : UsmParams.Params := ⟨[128, 0, 31, 136, 1], 3, 9, [117], [], []⟩
    let pdu : RawTlv := ⟨.minimal, 162, [2, 1, 1, 2, 1, 0, 2, 1, 0, 48, 0]⟩
    let pl := V3Glue.tSeq .minimal (rawBytes [V3Glue.tStr .minimal [128, 0, 31, 136, 1], V3Glue.tStr .minimal [], pdu])
    G.ok F h p [3] [9] pl ∧ F.ok p [3] [9] ∧ p.boots = intDecode true [3] ∧ fromBE h.flg / 2 % 2 = 0 := by
  refine ⟨?_, ?_, by decide, by decide⟩
  · simp [V3Glue.MsgForms.ok, LenForm.ok, V3Glue.msgItems, V3Glue.hdrItems, V3Glue.spBlock, V3Glue.paramItems, rawBytes,
      RawTlv.bytes, RawTlv.ok, V3Glue.tStr, V3Glue.tInt, V3Glue.tSeq, Spec.tlv, specLength, lookup, Gen.registry, clsName,
      natureName, Gen.noDefaultCtor]
  · simp [V3Glue.ParamForms.ok, LenForm.ok]

/-- The RFC reading of the same datagram: the strict specification reader (`Spec.readV3Msg`, written
    from RFC 3412 / 3414 independently of the x690 mirror) extracts from every well-formed message —
    version 3, one flags octet, non-empty integers, any length forms — exactly the ten header / USM
    fields that `C10_fields_from_wire` shows the library's glue to extract, and msgData as it
    travels.  Library reading and RFC reading of a well-formed SNMPv3 message coincide. -/
theorem C10_spec_reads_wire (G : V3Glue.MsgForms) (F : V3Glue.ParamForms) (h : V3Glue.HdrC) (p : UsmParams.Params)
    (boots time : Bytes) (pl : RawTlv) (fl : Nat)
    (hok : G.ok F h p boots time pl) (hF : F.ok p boots time)
    (hb : p.boots = intDecode true boots) (ht : p.time = intDecode true time)
    (hver : h.ver ≠ [] ∧ intDecode true h.ver = 3) (hflg : h.flg = [fl])
    (hne : h.mid ≠ [] ∧ h.mms ≠ [] ∧ h.mdl ≠ [] ∧ boots ≠ [] ∧ time ≠ []) :
    Spec.readV3Msg (V3Glue.v3wire G F h p boots time pl []) =
      some ⟨intDecode true h.mid, intDecode true h.mms, fl, intDecode true h.mdl,
            p.engineId, p.boots, p.time, p.user, p.auth, p.priv, pl.t, pl.c⟩ := by
  obtain ⟨h0, hv, hh, hm, hs, hl, ho, hsp, hsi, hpl⟩ := hok
  obtain ⟨he, hbo, hti, hu, ha, hp⟩ := hF
  obtain ⟨n1, n2, n3, n4, n5⟩ := hne
  unfold Spec.readV3Msg
  have e0 : V3Glue.v3wire G F h p boots time pl [] = Spec.tlv G.f0 48 (rawBytes (V3Glue.msgItems G F h p boots time pl)) ++ [] := rfl
  rw [e0, Spec.readTLV_spec G.f0 48 _ [] h0]
  simp only
  have hI : ∀ x ∈ V3Glue.msgItems G F h p boots time pl, x.f.ok x.c.length := by
    intro y hy
    simp only [V3Glue.msgItems, List.mem_cons, List.not_mem_nil, or_false] at hy
    rcases hy with rfl | rfl | rfl | rfl
    · exact hv
    · exact hh
    · exact hsp
    · exact hpl.1
  rw [Spec.readSeq_raw _ hI]
  simp only [V3Glue.msgItems, List.map_cons, List.map_nil, V3Glue.tInt, V3Glue.tSeq, V3Glue.tStr]
  have hH : ∀ x ∈ V3Glue.hdrItems G h, x.f.ok x.c.length := by
    intro y hy
    simp only [V3Glue.hdrItems, List.mem_cons, List.not_mem_nil, or_false] at hy
    rcases hy with rfl | rfl | rfl | rfl
    · exact hm
    · exact hs
    · exact hl
    · exact ho
  have hP : ∀ x ∈ V3Glue.paramItems F p boots time, x.f.ok x.c.length := by
    intro y hy
    simp only [V3Glue.paramItems, List.mem_cons, List.not_mem_nil, or_false] at hy
    rcases hy with rfl | rfl | rfl | rfl | rfl | rfl
    · exact he
    · exact hbo
    · exact hti
    · exact hu
    · exact ha
    · exact hp
  have hsb : Spec.readTLV (V3Glue.spBlock G F p boots time) = some (48, rawBytes (V3Glue.paramItems F p boots time), []) := by
    have := Spec.readTLV_spec G.fsi 48 (rawBytes (V3Glue.paramItems F p boots time)) [] hsi
    simpa [V3Glue.spBlock] using this
  have hHr := Spec.readSeq_raw (V3Glue.hdrItems G h) hH
  have hPr := Spec.readSeq_raw (V3Glue.paramItems F p boots time) hP
  simp only [V3Glue.hdrItems, V3Glue.paramItems, List.map_cons, List.map_nil, V3Glue.tInt, V3Glue.tStr, hflg] at hHr hPr hsb
  simp only [Spec.readInt, hver.1, ↓reduceIte, hver.2, hsb, V3Glue.hdrItems, V3Glue.paramItems, V3Glue.tInt, V3Glue.tStr, hflg, hHr]
  simp only [hPr, n1, n2, n3, n4, n5, ↓reduceIte]
  simp [hb, ht]

end Snmp.Props.C10
