import Snmp.Model.Ber
namespace Snmp.Props.C06
end Snmp.Props.C06
