/-
  C06 — every response value reaches the caller with the type and value that was sent.
  Impl side: the index-based x690 mirror (`decodeAt`, lazy nodes, `readNode`) with the registry
  generated from the working tree; spec side: `Snmp.Spec.readVal` on the same octets.
  Proved at the level of a single value TLV anywhere in a datagram, in every admissible definite
  length form (`C06_value_decode`), and for whole nested structures — binding lists, PDUs, message
  wrappers — in every mix of length forms (`C06_tree_decode`, `Lemmas/BerTree.lean`).
-/
import Snmp.Lemmas.BerDecode
import Snmp.Lemmas.BerInt
import Snmp.Lemmas.BerTree
import Snmp.Lemmas.GlueLemmas
import Snmp.Model.Agent
import Snmp.Lemmas.ReencLemmas
import Snmp.Lemmas.SpecRaw
import Snmp.Lemmas.SpecPdu
namespace Snmp.Props.C06
open Snmp Snmp.Ber

/-- the value a decoded tree stands for, by registered class -/
def treeVal : Tree → Option Val
  | .int "Integer" v => some (.int v)
  | .int "Counter" v => some (.counter32 v)
  | .int "Gauge" v => some (.gauge32 v)
  | .int "TimeTicks" v => some (.ticks v)
  | .int "Counter64" v => some (.counter64 v)
  | .int "NsapAddress" v => some (.nsap v)
  | .str "OctetString" b => some (.str b)
  | .str "Opaque" b => some (.opaque b)
  | .str "IpAddress" b => some (.ip b)
  | .null => some .null
  | .oid o => some (.oid o)
  | .marker "NoSuchObject" => some .noSuchObject
  | .marker "NoSuchInstance" => some .noSuchInstance
  | .marker "EndOfMibView" => some .endOfMibView
  | _ => none

/-- application types and exception markers are registered with the right class, nature and
    signedness (generated registry) -/
theorem C06_registry :
    lookup 2 = ⟨"Integer", "int", true⟩ ∧ lookup 4 = ⟨"OctetString", "str", false⟩ ∧
    lookup 5 = ⟨"Null", "null", false⟩ ∧ lookup 6 = ⟨"ObjectIdentifier", "oid", false⟩ ∧
    lookup 64 = ⟨"IpAddress", "ip", false⟩ ∧ lookup 65 = ⟨"Counter", "int", false⟩ ∧
    lookup 66 = ⟨"Gauge", "int", false⟩ ∧ lookup 67 = ⟨"TimeTicks", "int", false⟩ ∧
    lookup 68 = ⟨"Opaque", "str", false⟩ ∧ lookup 69 = ⟨"NsapAddress", "int", true⟩ ∧
    lookup 70 = ⟨"Counter64", "int", false⟩ ∧ lookup 128 = ⟨"NoSuchObject", "marker", false⟩ ∧
    lookup 129 = ⟨"NoSuchInstance", "marker", false⟩ ∧ lookup 130 = ⟨"EndOfMibView", "marker", false⟩ ∧
    lookup 48 = ⟨"Sequence", "seq", false⟩ ∧ lookup 162 = ⟨"GetResponse", "pdu", false⟩ ∧
    lookup 168 = ⟨"Report", "pdu", false⟩ := by decide

/-- Counter32 / Gauge32 / TimeTicks / Counter64 content is read unsigned whatever its leading bit:
    the decoded value is the plain big-endian number and never negative. -/
theorem C06_unsigned (bs : Bytes) : intDecode false bs = (fromBE bs : Int) ∧ 0 ≤ intDecode false bs :=
  intDecode_unsigned bs

/-- proper non-negative INTEGER content (leading bit clear) reads the same signed and unsigned -/
theorem unsigned_eq_signed (c : Bytes) (h : ∀ b rest, c = b :: rest → b < 128) :
    intDecode false c = intDecode true c := by
  cases c with
  | nil => rfl
  | cons b rest =>
    have := h b rest rfl
    have hn : ¬ 128 ≤ b := by omega
    simp [intDecode, hn]

/-- the conditions under which the library and the RFC reading of a value TLV coincide: OID
    content starts with an octet below 120 (arc0 ≤ 2, arc1 < 40 — what x690 can unpack), and
    unsigned application integers are proper non-negative INTEGER encodings -/
def InDomain (t : Nat) (c : Bytes) : Prop :=
  (t = 6 → ∀ d0 rest, c = d0 :: rest → d0 < 120) ∧
  ((t = 65 ∨ t = 66 ∨ t = 67 ∨ t = 70) → ∀ b rest, c = b :: rest → b < 128)

/-- Every well-formed value — INTEGER, OCTET STRING, NULL, OBJECT IDENTIFIER, IpAddress,
    Counter32, Gauge32, TimeTicks, Opaque, Counter64, the three exception markers — written in
    ANY admissible definite length form (minimal, or long form with 1..126 length octets, also
    non-minimal) anywhere in a datagram, is decoded to the registered class with exactly the
    value the specification reader reads from the same octets; and the next TLV starts right
    behind it. -/
theorem C06_value_decode (f : LenForm) (t : Nat) (c pre rest : Bytes) (v : Val)
    (hf : f.ok c.length) (hspec : Spec.readVal t c = some v) (hdom : InDomain t c) (fuel depth : Nat) :
    ∃ n, decodeAt (pre ++ Spec.tlv f t c ++ rest) pre.length = .ok (n, pre.length + (Spec.tlv f t c).length) ∧
      (readNode (pre ++ Spec.tlv f t c ++ rest) fuel (depth + 1) n).toOption.bind treeVal = some v := by
  have ht : t ≠ 255 := by
    intro h; subst h; simp [Spec.readVal] at hspec
  obtain ⟨r2, r4, r5, r6, r64, r65, r66, r67, r68, r69, r70, r128, r129, r130, _, _, _⟩ := C06_registry
  have hctor : Gen.noDefaultCtor.contains (lookup t).name = false := by
    apply ctor_of_not_pdu
    unfold Spec.readVal at hspec
    split at hspec <;> first
      | (rw [r2]; decide) | (rw [r4]; decide) | (rw [r5]; decide) | (rw [r6]; decide) | (rw [r64]; decide)
      | (rw [r65]; decide) | (rw [r66]; decide) | (rw [r67]; decide) | (rw [r68]; decide) | (rw [r69]; decide)
      | (rw [r70]; decide) | (rw [r128]; decide) | (rw [r129]; decide) | (rw [r130]; decide) | (cases hspec)
  rcases decodeAt_spec f t c pre rest hf ht hctor with ⟨n, hdec, hentry, htag, hcont⟩
  refine ⟨n, hdec, ?_⟩
  have hk : ∀ e, lookup t = e → n.entry = e := fun e he => by rw [hentry, he]
  -- case analysis on the identifier octet, driven by the specification reader
  unfold Spec.readVal at hspec
  split at hspec
  · -- INTEGER
    rw [readNode_int _ _ _ n (by rw [hk _ r2])]; (try rw [hcont]); (try rw [hk _ r2])
    simp only [Spec.readInt] at hspec
    by_cases hc : c = []
    · simp [hc] at hspec
    · simp only [hc, ↓reduceIte, Option.map_some, Option.some.injEq] at hspec
      simp [Except.toOption, treeVal, hspec]
  · rw [readNode_str _ _ _ n (by rw [hk _ r4])]; (try rw [hcont]); (try rw [hk _ r4]); simp at hspec; simp [Except.toOption, treeVal, hspec]
  · rw [readNode_null _ _ _ n (by rw [hk _ r5])]; (try rw [hcont]); (try rw [hk _ r5])
    by_cases hc : c = [] <;> simp [hc] at hspec
    simp [Except.toOption, treeVal, hspec]
  · -- OBJECT IDENTIFIER
    rw [readNode_oid _ _ _ n (by rw [hk _ r6])]; (try rw [hcont]); (try rw [hk _ r6])
    cases ho : Spec.readOid c with
    | none => simp [ho] at hspec
    | some o =>
      simp only [ho, Option.map_some, Option.some.injEq] at hspec
      rw [oidDecode_eq_readOid c o (hdom.1 rfl) ho]
      simp [Except.map, Except.toOption, treeVal, hspec]
  · rw [readNode_ip _ _ _ n (by rw [hk _ r64])]; (try rw [hcont]); (try rw [hk _ r64]); simp at hspec; simp [Except.toOption, treeVal, hspec]
  · -- Counter32
    rw [readNode_int _ _ _ n (by rw [hk _ r65])]; (try rw [hcont]); (try rw [hk _ r65])
    simp only [Spec.readInt] at hspec
    by_cases hc : c = []
    · simp [hc] at hspec
    · simp only [hc, ↓reduceIte, Option.map_some, Option.some.injEq] at hspec
      rw [unsigned_eq_signed c (hdom.2 (Or.inl rfl))]
      simp [Except.toOption, treeVal, hspec]
  · rw [readNode_int _ _ _ n (by rw [hk _ r66])]; (try rw [hcont]); (try rw [hk _ r66])
    simp only [Spec.readInt] at hspec
    by_cases hc : c = []
    · simp [hc] at hspec
    · simp only [hc, ↓reduceIte, Option.map_some, Option.some.injEq] at hspec
      rw [unsigned_eq_signed c (hdom.2 (Or.inr (Or.inl rfl)))]
      simp [Except.toOption, treeVal, hspec]
  · rw [readNode_int _ _ _ n (by rw [hk _ r67])]; (try rw [hcont]); (try rw [hk _ r67])
    simp only [Spec.readInt] at hspec
    by_cases hc : c = []
    · simp [hc] at hspec
    · simp only [hc, ↓reduceIte, Option.map_some, Option.some.injEq] at hspec
      rw [unsigned_eq_signed c (hdom.2 (Or.inr (Or.inr (Or.inl rfl))))]
      simp [Except.toOption, treeVal, hspec]
  · rw [readNode_str _ _ _ n (by rw [hk _ r68])]; (try rw [hcont]); (try rw [hk _ r68]); simp at hspec; simp [Except.toOption, treeVal, hspec]
  · rw [readNode_int _ _ _ n (by rw [hk _ r69])]; (try rw [hcont]); (try rw [hk _ r69])
    simp only [Spec.readInt] at hspec
    by_cases hc : c = []
    · simp [hc] at hspec
    · simp only [hc, ↓reduceIte, Option.map_some, Option.some.injEq] at hspec
      simp [Except.toOption, treeVal, hspec]
  · rw [readNode_int _ _ _ n (by rw [hk _ r70])]; (try rw [hcont]); (try rw [hk _ r70])
    simp only [Spec.readInt] at hspec
    by_cases hc : c = []
    · simp [hc] at hspec
    · simp only [hc, ↓reduceIte, Option.map_some, Option.some.injEq] at hspec
      rw [unsigned_eq_signed c (hdom.2 (Or.inr (Or.inr (Or.inr rfl))))]
      simp [Except.toOption, treeVal, hspec]
  · rw [readNode_marker _ _ _ n (by rw [hk _ r128])]; (try rw [hcont]); (try rw [hk _ r128])
    by_cases hc : c = [] <;> simp [hc] at hspec
    simp [Except.toOption, treeVal, hspec]
  · rw [readNode_marker _ _ _ n (by rw [hk _ r129])]; (try rw [hcont]); (try rw [hk _ r129])
    by_cases hc : c = [] <;> simp [hc] at hspec
    simp [Except.toOption, treeVal, hspec]
  · rw [readNode_marker _ _ _ n (by rw [hk _ r130])]; (try rw [hcont]); (try rw [hk _ r130])
    by_cases hc : c = [] <;> simp [hc] at hspec
    simp [Except.toOption, treeVal, hspec]
  · cases hspec

/-- **Whole structures, in every mix of definite length forms.**  `e` is any tree of TLVs as an
    agent may write it: at every node its own length form (minimal, or long with 1..126 length
    octets, also non-minimal); primitive nodes of any registered or unknown class; constructed
    nodes of a class registered as a sequence (binding lists, bindings, message wrappers, header,
    USM parameters, scoped PDU) with any number of items; PDU nodes (request-id, two integers, a
    binding list of two-item bindings — what `PDU.decode_raw` reads at absolute indices); any
    nesting.  Placed anywhere in a datagram (`pre`, `rest` arbitrary), the x690 mirror — `decode` at
    an absolute index, lazy slices, `Sequence.decode_raw`'s `while next_pos < end` loop, the PDU
    reader — finds exactly that node (class from the generated registry), the next TLV right behind
    it, and reads it out to the tree of the same shape with leaf values as in `C06_value_decode`.
    `fuel` / `depth` only have to cover the longest item list / the nesting. -/
theorem C06_tree_decode (e : Enc) (h : e.WF) (pre rest : Bytes) (fuel depth : Nat)
    (hw : e.width ≤ fuel) (hd : e.depth ≤ depth) :
    ∃ n, decodeAt (pre ++ e.bytes ++ rest) pre.length = .ok (n, pre.length + e.bytes.length) ∧
      n.entry = lookup e.tag ∧
      readNode (pre ++ e.bytes ++ rest) fuel depth n = e.tree :=
  decode_enc e h pre rest fuel depth hw hd

/-- … in particular a datagram that consists of one such structure decodes to its tree -/
theorem C06_datagram_decode (e : Enc) (h : e.WF) (fuel depth : Nat) (hw : e.width ≤ fuel) (hd : e.depth ≤ depth) :
    decodeTree e.bytes fuel depth = e.tree := by
  obtain ⟨n, hdec, _, hread⟩ := decode_enc e h [] [] fuel depth hw hd
  simp only [List.nil_append, List.append_nil, List.length_nil] at hdec hread
  unfold decodeTree
  simp only [hdec, bind, Except.bind]
  exact hread

/-- **A whole response message reaches the operation logic as the record the agent wrote.**
    `Glue.WritesMsg e m cls`: `e` is a community message — wrapper, version, community, a PDU of class
    `cls` with request id, error fields and bindings `m.pdu` — in which every TLV has its own definite
    length form and every value TLV is one the specification reads as the value in `m`.  Then the
    client's path — x690 mirror (`decodeTree`), `proto_version, community, pdu = message`,
    `PDU.decode_raw`, `VarBind(oid, value)` per binding (`Glue.msgOfBytes`) — yields exactly `m` and
    `cls`; hence every result the operation model (`Snmp.Ops`, C04/C07/C08) computes from the record
    is the result for the octets on the wire. -/
theorem C06_message_readback (e : Enc) (m : Ops.RespMsg) (cls : String) (h : Glue.WritesMsg e m cls)
    (fuel depth : Nat) (hw : e.width ≤ fuel) (hd : e.depth ≤ depth) :
    Glue.msgOfBytes e.bytes fuel depth = some (m, cls) := by
  obtain ⟨hwf, tr, htree, hmsg⟩ := Glue.writesMsg_read h
  unfold Glue.msgOfBytes
  rw [C06_datagram_decode e hwf fuel depth hw hd, htree]
  exact hmsg

/-- the record the client reads from a datagram, as the network's answer to an operation -/
def fromWire (data : Bytes) (fuel depth : Nat) : Except Err Ops.RespMsg :=
  match Glue.msgOfBytes data fuel depth with
  | some (m, _) => .ok m
  | none => .error (.other "decode")

/-- **From the octets on the wire to the caller's result**, v2c multi-GET against a conformant
    agent: the agent holds `db`, answers the request for `oids` with the record `m` (its bindings
    are `Agent.getResp db oids`, it echoes the request id, version 1, the client's community, no
    error) and writes that record in BER with any mix of definite length forms (`WritesMsg`).  The
    client — decoder, unpacking glue, wrapper checks, id check, `multiget` — returns exactly the
    agent's values for exactly the requested OIDs, in order. -/
theorem C06_multiget_from_wire (db : List VarBind) (oids : List Oid) (community : Bytes) (rid : Int)
    (e : Enc) (m : Ops.RespMsg) (cls : String) (hw : Glue.WritesMsg e m cls)
    (hver : m.version = 1) (hcom : m.community = community) (hrid : m.pdu.requestId = rid)
    (hes : m.pdu.errorStatus = 0) (hvb : m.pdu.varbinds = Agent.getResp db oids)
    (fuel depth : Nat) (hwd : e.width ≤ fuel) (hd : e.depth ≤ depth) :
    (Ops.multiget (.v2c community) oids).result rid (fromWire e.bytes fuel depth)
      = .ok ((Agent.getResp db oids).map (·.2)) := by
  unfold fromWire
  rw [C06_message_readback e m cls hw fuel depth hwd hd]
  have hrecv : Ops.recv (.v2c community) rid (.ok m) = .ok m.pdu := by
    simp [Ops.recv, Ops.mpmDecode, Ops.forcePdu, hver, hcom, hes, hrid, bind, Except.bind, pure, Except.pure]
  simp only [Ops.multiget, bind, Except.bind, hrecv, hvb]
  simp [Agent.getResp, pure, Except.pure]

/-- the OID part of the value statement without the domain restriction of `InDomain` -/
def C06_oid_statement : Prop :=
  ∀ (c : Bytes) (o : Oid), Spec.readOid c = some o → oidDecode c = .ok o

/-- It does not hold: x690 splits the first sub-identifier with `// 40`, `% 40` whatever its size;
    the content `78 01` (2.40.1) is decoded to 3.0.1.  Known finding of the dependency
    (C06-x690-oid-second-arc), replayed on the implementation by the suite `second-arc`; the proved
    part is `C06_value_decode` under `InDomain` (first content octet below 120). -/
theorem C06_oid_counterexample : ¬ C06_oid_statement := by
  intro h
  have h1 := h [120, 1] [2, 40, 1] (by decide)
  have h2 : oidDecode [120, 1] = .ok [3, 0, 1] := by rfl
  rw [h2] at h1
  cases h1

/-- Re-encoding a decoded primitive value (`bytes(obj)`: received content octets re-used, length
    re-encoded by `encode_length`) is read by the specification reader as the same tag and
    content — the same value, possibly in another length form. -/
theorem C06_reencode_value (t : Nat) (c rest : Bytes) (hc : Spec.Small c.length) :
    Spec.readTLV (Ber.tlv t c ++ rest) = some (t, c, rest) := Spec.readTLV_tlv t c rest hc

/- non-vacuity: a Gauge32 with its top bit set, written with a 3-octet long-form length -/
example : LenForm.ok (.long 3) 4 ∧ Spec.readVal 66 [0, 255, 255, 255] = some (.gauge32 16777215) ∧
    InDomain 66 [0, 255, 255, 255] := by
  refine ⟨by simp [LenForm.ok], by decide, ?_⟩
  constructor
  · intro h; cases h
  · intro _ b rest h; cases h; omega

/- non-vacuity: a binding list with two bindings, mixed length forms (the list in a 2-octet long
   form, the second binding in a non-minimal 3-octet form), a Counter64 and an endOfMibView -/
example :
    let vb1 := Enc.cons .minimal 48 [.prim .minimal 6 [43, 6, 1, 2, 1, 1, 3, 0], .prim (.long 1) 70 [1, 0, 0, 0, 0, 0, 0, 0, 0]]
    let vb2 := Enc.cons (.long 3) 48 [.prim .minimal 6 [43, 6, 1, 2, 1, 1, 4, 0], .prim .minimal 130 []]
    let e := Enc.cons (.long 2) 48 [vb1, vb2]
    e.WF ∧ e.width = 2 ∧ e.depth = 3 ∧
    e.tree = .ok (.seq "Sequence" [
      .seq "Sequence" [.oid [1, 3, 6, 1, 2, 1, 1, 3, 0], .int "Counter64" 18446744073709551616],
      .seq "Sequence" [.oid [1, 3, 6, 1, 2, 1, 1, 4, 0], .marker "EndOfMibView"]]) := by
  refine ⟨?_, by decide, by decide, by rfl⟩
  simp [Enc.WF, Enc.WFL, Enc.bytesL, Enc.bytes, Spec.tlv, specLength, LenForm.ok, toBE, lookup, Gen.registry, clsName, natureName,
    Gen.noDefaultCtor]

/- non-vacuity: a whole v2c response message — wrapper, version, community, a GetResponse PDU in
   a non-minimal long form with request-id 2^31-1, and one binding carrying a Gauge32 above 2^31 -/
example :
    let vb := Enc.cons .minimal 48 [.prim .minimal 6 [43, 6, 1, 2, 1, 1, 7, 0], .prim .minimal 66 [0, 255, 255, 255, 255]]
    let pdu := Enc.pdu (.long 2) 162 [.prim .minimal 2 [127, 255, 255, 255], .prim .minimal 2 [0], .prim (.long 1) 2 [0],
      .cons .minimal 48 [vb]]
    let e := Enc.cons .minimal 48 [.prim .minimal 2 [1], .prim .minimal 4 [112, 117, 98], pdu]
    e.WF ∧
    e.tree = .ok (.seq "Sequence" [.int "Integer" 1, .str "OctetString" [112, 117, 98],
      .seq "GetResponse" [.int "Integer" 2147483647, .int "Integer" 0, .int "Integer" 0,
        .seq "Sequence" [.seq "Sequence" [.oid [1, 3, 6, 1, 2, 1, 1, 7, 0], .int "Gauge" 4294967295]]]]) := by
  refine ⟨?_, by rfl⟩
  simp [Enc.WF, Enc.WFL, Enc.bytesL, Enc.bytes, Spec.tlv, specLength, LenForm.ok, toBE, lookup, Gen.registry, clsName,
    natureName, pduShape, Enc.isIntPrim, Enc.isBindList, Enc.isPair, Gen.noDefaultCtor]

/-! ### re-encoding of decoded structures (`Model/Reenc.lean`, `Lemmas/ReencLemmas.lean`) -/

open Snmp.V3Glue in
/-- **Security-parameter block.**  `bytes(USMSecurityParameters.decode(block))` for a block whose
    seven TLVs are in any admissible length forms is the block of the same six values in the forms
    `encode_length` writes, and decoding that yields the same six values again. -/
theorem C06_reencode_usm (f : LenForm) (F : ParamForms) (p : UsmParams.Params) (boots time : Bytes)
    (hF : F.ok p boots time) (hf : f.ok (rawBytes (paramItems F p boots time)).length)
    (hb : p.boots = intDecode true boots) (ht : p.time = intDecode true time) (hs : Reenc.SmallParams p)
    (fuel : Nat) (hfuel : 5 ≤ fuel) :
    Reenc.reencUsm (Spec.tlv f 48 (rawBytes (paramItems F p boots time))) fuel
        = .ok (encodeUsmParams p.engineId p.boots p.time p.user p.auth p.priv) ∧
    UsmParams.ofBytes (encodeUsmParams p.engineId p.boots p.time p.user p.auth p.priv) fuel = .ok p :=
  Reenc.reencUsm_wire f F p boots time hF hf hb ht hs fuel hfuel

/-- **Scoped PDU.**  `bytes(ScopedPDU.decode(data))` for a scoped PDU in any admissible length forms
    (anything may follow it): the same three TLVs — contextEngineID and contextName as OCTET STRINGs,
    the PDU under its own identifier octet with the content octets received — each under the length
    octets `encode_length` writes; the strict reader takes that apart into exactly these three. -/
theorem C06_reencode_scoped (f fe fn : LenForm) (e nm : Bytes) (pdu : RawTlv) (trailing : Bytes) (fuel : Nat)
    (hf : f.ok (rawBytes (Reenc.scopedItems fe fn e nm pdu)).length) (hfe : fe.ok e.length) (hfn : fn.ok nm.length)
    (hpdu : pdu.ok) (hpt : tagOf (lookup pdu.t).name = pdu.t) (hpk : (lookup pdu.t).kind ≠ "null") (hpc : pdu.c ≠ [])
    (hfuel : 2 ≤ fuel) (hs : Spec.Small e.length ∧ Spec.Small nm.length ∧ Spec.Small pdu.c.length ∧
      Spec.Small (rawBytes [Reenc.norm 4 e, Reenc.norm 4 nm, Reenc.norm pdu.t pdu.c]).length) :
    Reenc.reencScoped (Spec.tlv f 48 (rawBytes (Reenc.scopedItems fe fn e nm pdu)) ++ trailing) fuel =
      .ok (Ber.tlv 48 (rawBytes [Reenc.norm 4 e, Reenc.norm 4 nm, Reenc.norm pdu.t pdu.c])) ∧
    Spec.readTLV (Ber.tlv 48 (rawBytes [Reenc.norm 4 e, Reenc.norm 4 nm, Reenc.norm pdu.t pdu.c]))
      = some (48, rawBytes [Reenc.norm 4 e, Reenc.norm 4 nm, Reenc.norm pdu.t pdu.c], []) ∧
    Spec.readSeq (rawBytes [Reenc.norm 4 e, Reenc.norm 4 nm, Reenc.norm pdu.t pdu.c]) = some [(4, e), (4, nm), (pdu.t, pdu.c)] := by
  refine ⟨Reenc.reencScoped_wire f fe fn e nm pdu trailing fuel hf hfe hfn hpdu hpt hpk hpc hfuel, ?_, ?_⟩
  · have := Spec.readTLV_tlv 48 (rawBytes [Reenc.norm 4 e, Reenc.norm 4 nm, Reenc.norm pdu.t pdu.c]) [] hs.2.2.2
    simpa using this
  · have := Spec.readSeq_raw [Reenc.norm 4 e, Reenc.norm 4 nm, Reenc.norm pdu.t pdu.c] (by
      intro x hx
      simp only [List.mem_cons, List.not_mem_nil, or_false] at hx
      rcases hx with rfl | rfl | rfl
      · exact Reenc.formOf_ok _ hs.1
      · exact Reenc.formOf_ok _ hs.2.1
      · exact Reenc.formOf_ok _ hs.2.2.1)
    simpa [Reenc.norm] using this

open Snmp.V3Glue in
/-- **SNMPv3 message, encrypted payload.**  `bytes(Message.decode(data))` for every well-formed
    message with the priv flag set — any admissible length form at each TLV of the wrapper, anything
    behind the message — is the message (`v3wire`) with the same msgVersion content, the header
    fields re-written from their values, the security-parameter octets as received and the same
    ciphertext, every level under the length octets `encode_length` writes. -/
theorem C06_reencode_message_encrypted (G : MsgForms) (F : ParamForms) (h : HdrC) (p : UsmParams.Params) (boots time : Bytes)
    (fpl : LenForm) (cipher trailing : Bytes) (fuel : Nat)
    (hok : G.ok F h p boots time (tStr fpl cipher)) (hpriv : fromBE h.flg / 2 % 2 = 1) (hfuel : 5 ≤ fuel) :
    Reenc.reencMsg (v3wire G F h p boots time (tStr fpl cipher) trailing) fuel =
      .ok (v3wire (Reenc.normMsgForms G F h p boots time (Reenc.norm 4 cipher)) F (Reenc.normHdr h) p boots time
            (Reenc.norm 4 cipher) []) := by
  rw [← Reenc.assemble_eq_wire, Reenc.norm_bytes]
  exact Reenc.reencMsg_wire G F h p boots time _ trailing fuel _ hok
    (Reenc.payloadBytes_encrypted G F h p boots time fpl cipher trailing fuel _ hpriv) hfuel

open Snmp.V3Glue in
/-- **SNMPv3 message, plain payload**: as above; msgData becomes a fresh SEQUENCE around
    contextEngineID, contextName and the PDU with the content octets received. -/
theorem C06_reencode_message_plain (G : MsgForms) (F : ParamForms) (h : HdrC) (p : UsmParams.Params) (boots time : Bytes)
    (fpl fe fn : LenForm) (e nm : Bytes) (pdu : RawTlv) (trailing : Bytes) (fuel : Nat)
    (hok : G.ok F h p boots time (tSeq fpl (rawBytes (Reenc.scopedItems fe fn e nm pdu))))
    (hplain : fromBE h.flg / 2 % 2 = 0) (hfe : fe.ok e.length) (hfn : fn.ok nm.length)
    (hpdu : pdu.ok) (hpt : tagOf (lookup pdu.t).name = pdu.t) (hpk : (lookup pdu.t).kind ≠ "null") (hpc : pdu.c ≠ [])
    (hfuel : 5 ≤ fuel) :
    Reenc.reencMsg (v3wire G F h p boots time (tSeq fpl (rawBytes (Reenc.scopedItems fe fn e nm pdu))) trailing) fuel =
      .ok (v3wire (Reenc.normMsgForms G F h p boots time (Reenc.norm 48 (rawBytes [Reenc.norm 4 e, Reenc.norm 4 nm, Reenc.norm pdu.t pdu.c])))
            F (Reenc.normHdr h) p boots time (Reenc.norm 48 (rawBytes [Reenc.norm 4 e, Reenc.norm 4 nm, Reenc.norm pdu.t pdu.c])) []) := by
  rw [← Reenc.assemble_eq_wire, Reenc.norm_bytes]
  exact Reenc.reencMsg_wire G F h p boots time _ trailing fuel _ hok
    (Reenc.payloadBytes_plain G F h p boots time fpl fe fn e nm pdu trailing fuel _ hplain hfe hfn hpdu hpt hpk hpc (by omega)) hfuel

open Snmp.V3Glue in
/-- **… of the same content.**  The re-encoding is itself a well-formed message, and taking it apart
    (`Message.decode` + `USMSecurityParameters.decode`) gives msgID, msgMaxSize, msgSecurityModel and
    the six USM parameters with the values of the message received, the flags reduced to their three
    defined bits (`flagsNorm f = f` for every `f < 8`), and msgData as `payloadOf` reads it. -/
theorem C06_reencoded_fields (G : MsgForms) (F : ParamForms) (h : HdrC) (p : UsmParams.Params) (boots time : Bytes)
    (pl' : RawTlv) (fuel : Nat) (dt : Nat) (dc : Bytes)
    (hs : Reenc.SmallMsg G F h p boots time pl') (hsi : G.fsi.ok (rawBytes (paramItems F p boots time)).length) (hpl : pl'.ok)
    (hF : F.ok p boots time) (hb : p.boots = intDecode true boots) (ht : p.time = intDecode true time)
    (hpay : payloadOf (v3wire (Reenc.normMsgForms G F h p boots time pl') F (Reenc.normHdr h) p boots time pl' [])
      (Reenc.flagsNorm (fromBE h.flg)) (plNode (Reenc.normMsgForms G F h p boots time pl') F (Reenc.normHdr h) p boots time pl') fuel = .ok (dt, dc))
    (hfuel : 5 ≤ fuel) :
    v3OfBytes (v3wire (Reenc.normMsgForms G F h p boots time pl') F (Reenc.normHdr h) p boots time pl' []) fuel =
      .ok ⟨intDecode true h.mid, intDecode true h.mms, Reenc.flagsNorm (fromBE h.flg), intDecode true h.mdl,
           p.engineId, p.boots, p.time, p.user, p.auth, p.priv, dt, dc⟩ ∧
    (fromBE h.flg < 8 → Reenc.flagsNorm (fromBE h.flg) = fromBE h.flg) := by
  obtain ⟨v1, v2, v3, v4, _⟩ := Reenc.normHdr_values h
  refine ⟨?_, Reenc.flagsNorm_small _⟩
  have := v3OfBytes_wire (Reenc.normMsgForms G F h p boots time pl') F (Reenc.normHdr h) p boots time pl' [] fuel dt dc
    (Reenc.normForms_ok G F h p boots time pl' hs hsi hpl) hF hb ht (by rw [v4]; exact hpay) hfuel
  rw [this, v1, v2, v3, v4]

/- non-vacuity: a scoped PDU with a GetResponse, contextEngineID in a 2-octet long form -/
example : let pdu : RawTlv := ⟨.minimal, 162, [2, 1, 1, 2, 1, 0, 2, 1, 0, 48, 0]⟩
    pdu.ok ∧ tagOf (lookup pdu.t).name = pdu.t ∧ (lookup pdu.t).kind ≠ "null" ∧ pdu.c ≠ [] ∧ LenForm.ok (.long 2) 3 := by
  refine ⟨?_, by decide, by decide, by simp, by simp [LenForm.ok]⟩
  simp [RawTlv.ok, LenForm.ok, lookup, Gen.registry, clsName, natureName, Gen.noDefaultCtor]

/- non-vacuity: the re-encoding function on a concrete 127-octet-level message runs to a result -/
example : Reenc.reencScoped [48, 129, 11, 4, 0, 4, 0, 162, 129, 5, 2, 1, 1, 2, 0] 20 =
    .ok [48, 11, 4, 0, 4, 0, 162, 5, 2, 1, 1, 2, 0] := by rfl

/-- **SNMPv3: the PDU inside the scoped PDU.**  The model of the v3 path hands msgData — taken apart
    by the library glue into context engine id, context name and the PDU item (`V3Glue.payloadOf`,
    `C10_payload_plain`) — to the strict RFC reader (`Usm.extractScoped`), while the code reads the PDU
    through `PDU.decode_raw`.  For EVERY PDU an agent writes (`Glue.WritesPdu`: any admissible length
    form at every TLV, any bindings, every value one the specification reads as intended) with the
    standard identifier octets for the binding list and the bindings, both readings give the same
    record: the x690 mirror + glue (`pduOfTree`) yield class and content `(cls, p)`, and the strict
    reader finds in the payload exactly `⟨e, nm, ⟨tag, p.requestId, p.errorStatus, p.errorIndex,
    p.varbinds⟩⟩` — so the results of C04 / C07 / C08 for SNMPv3 are results for the octets on the wire. -/
theorem C06_v3_pdu_readback (ep : Enc) (cls : String) (p : Ops.PduResp) (h : Glue.WritesPdu ep cls p) (hstd : Glue.StdPdu ep)
    (e nm : Bytes) (hs : Spec.Small e.length ∧ Spec.Small nm.length ∧ Spec.Small (Glue.rawOf ep).c.length) :
    (ep.WF ∧ ∃ tr, ep.tree = .ok tr ∧ Glue.pduOfTree tr = some (cls, p)) ∧
    Spec.readScoped (Ber.tlv 4 e ++ Ber.tlv 4 nm ++ Ber.tlv (Glue.rawOf ep).t (Glue.rawOf ep).c) =
      some ⟨e, nm, ⟨(Glue.rawOf ep).t, p.requestId, p.errorStatus, p.errorIndex, p.varbinds⟩⟩ := by
  refine ⟨Glue.writesPdu_read h, ?_⟩
  have hseq := Spec.readSeq_raw [Reenc.norm 4 e, Reenc.norm 4 nm, Reenc.norm (Glue.rawOf ep).t (Glue.rawOf ep).c] (by
    intro x hx
    simp only [List.mem_cons, List.not_mem_nil, or_false] at hx
    rcases hx with rfl | rfl | rfl
    · exact Reenc.formOf_ok _ hs.1
    · exact Reenc.formOf_ok _ hs.2.1
    · exact Reenc.formOf_ok _ hs.2.2)
  have hb : rawBytes [Reenc.norm 4 e, Reenc.norm 4 nm, Reenc.norm (Glue.rawOf ep).t (Glue.rawOf ep).c]
      = Ber.tlv 4 e ++ Ber.tlv 4 nm ++ Ber.tlv (Glue.rawOf ep).t (Glue.rawOf ep).c := by
    simp [rawBytes, Reenc.norm_bytes, List.append_assoc]
  rw [hb] at hseq
  unfold Spec.readScoped
  simp only [hseq, Reenc.norm, List.map_cons, List.map_nil, Glue.writesPdu_spec h hstd, bind, Option.bind, pure]

/- non-vacuity: a GetResponse with one binding: standard identifier octets, both readings agree -/
example :
    let vb := Enc.cons .minimal 48 [.prim .minimal 6 [43, 6, 1, 2, 1, 1, 7, 0], .prim .minimal 2 [72]]
    let ep := Enc.pdu .minimal 162 [.prim .minimal 2 [1], .prim .minimal 2 [0], .prim .minimal 2 [0], .cons .minimal 48 [vb]]
    Glue.StdPdu ep ∧ ep.tree = .ok (.seq "GetResponse" [.int "Integer" 1, .int "Integer" 0, .int "Integer" 0,
      .seq "Sequence" [.seq "Sequence" [.oid [1, 3, 6, 1, 2, 1, 1, 7, 0], .int "Integer" 72]]]) ∧
    Spec.readPdu 162 (Glue.rawOf ep).c = some ⟨162, 1, 0, 0, [([1, 3, 6, 1, 2, 1, 1, 7, 0], .int 72)]⟩ := by
  refine ⟨by simp [Glue.StdPdu, Glue.StdBind, Glue.rawOf], by rfl, by rfl⟩

end Snmp.Props.C06
