/-
  C05 — every emitted datagram is the intended request under an independent decoder.
  Impl side: `Snmp.Ber` encoders (the x690 mirror) and `Snmp.Emit`; spec side: `Snmp.Spec` reader.
  Domain (explicit, decidable): OIDs with at least two arcs whose first two arcs fit the first
  octet the way x690 packs them (`OidDom`), datagrams shorter than 256^126 octets (`Small`).
-/
import Snmp.Lemmas.SpecVal
import Snmp.Model.Emit
namespace Snmp.Props.C05
open Snmp Snmp.Ber Snmp.Spec

/-- every length the library writes is read back, whatever follows -/
theorem C05_len_roundtrip (n : Nat) (hn : Small n) (rest : Bytes) :
    readLength (encodeLength n ++ rest) = some (n, rest) := readLength_encodeLength n hn rest

/-- every integer (request ids far beyond today's clock values included) -/
theorem C05_int_roundtrip (v : Int) : readInt (intEncode v) = some v := readInt_intEncode v

/-- every OID of the domain: later sub-identifiers unbounded, any number of arcs.  PARTIAL with
    respect to the property's "all OID lists": the domain excludes arc0 = 2 with arc1 ≥ 40, see
    `C05_oid_counterexample`. -/
theorem C05_oid_roundtrip (o : Oid) (h : OidDom o) : ∃ bs, oidEncode o = some bs ∧ readOid bs = some o :=
  readOid_oidEncode o h

/-- the full statement over all legal OIDs (arc0 = 2 allows any arc1, X.660) -/
def C05_oid_statement : Prop :=
  ∀ (b : Nat) (rest : List Nat), ∀ bs, oidEncode (2 :: b :: rest) = some bs → readOid bs = some (2 :: b :: rest)

/-- It does not hold: the mirror of x690's `ObjectIdentifier.encode_raw` packs the first two arcs
    into one *octet*; 2.100.3 is written `b4 03`, which the specification reader (and every BER
    decoder) takes for the single sub-identifier 6659 = 2.6579.  Known finding of the dependency
    (C05-x690-oid-second-arc), replayed on the implementation by the suite `second-arc`. -/
theorem C05_oid_counterexample : ¬ C05_oid_statement := by
  intro h
  have := h 100 [3] [180, 3] (by decide)
  revert this
  decide

/-- every SET value kind over its full range -/
theorem C05_value_roundtrip (v : Val) (hv : SetVal v) (bs : Bytes) (he : encodeVal v = some bs)
    (hs : Small bs.length) (rest : Bytes) :
    ∃ t c, readTLV (bs ++ rest) = some (t, c, rest) ∧ readVal t c = some v := by
  rcases encodeVal_read v hv (fun b hb => by rw [he] at hb; cases hb; exact hs) with ⟨t, c, h1, h2, h3⟩
  rw [he] at h1; cases h1
  exact ⟨t, c, readTLV_tlv t c rest h2, h3⟩

def ReqOk (vbs : List VarBind) : Prop := ∀ vb ∈ vbs, BindOk vb

/-- PDU framing: request-id of any size, the two integer fields, the caller's bindings in order -/
theorem C05_pdu (cls : String) (rid a b : Int) (vbs : List VarBind) (hv : ReqOk vbs) (bs : Bytes)
    (he : encodePdu cls rid a b vbs = some bs) (hs : Small bs.length) (rest : Bytes) :
    ∃ c, readTLV (bs ++ rest) = some (tagOf cls, c, rest) ∧ readPdu (tagOf cls) c = some ⟨tagOf cls, rid, a, b, vbs⟩ := by
  have hvb : ∃ vb, encodeVarBinds vbs = some vb := by
    cases h : encodeVarBinds vbs with
    | none => simp [encodePdu, h] at he
    | some x => exact ⟨x, rfl⟩
  rcases hvb with ⟨vbb, hvbb⟩
  have hbs : bs = Ber.tlv (tagOf cls) (Ber.tlv 2 (intEncode rid) ++ (Ber.tlv 2 (intEncode a) ++ (Ber.tlv 2 (intEncode b) ++ vbb))) := by
    simp [encodePdu, hvbb] at he; exact he.symm
  have hcont : Small (Ber.tlv 2 (intEncode rid) ++ (Ber.tlv 2 (intEncode a) ++ (Ber.tlv 2 (intEncode b) ++ vbb))).length :=
    Small.mono (Nat.le_of_lt (by rw [hbs]; exact tlv_length _ _)) hs
  rcases encodeVarBinds_read vbs hv (fun x hx => by
    rw [hvbb] at hx; cases hx
    exact Small.mono (by simp only [List.length_append]; omega) hcont) with ⟨c, hc1, hc2, items, hi1, hi2⟩
  have hvbbc : vbb = Ber.tlv 48 c := by rw [hvbb] at hc1; exact Option.some.inj hc1
  refine ⟨_, by rw [hbs]; exact readTLV_tlv _ _ rest hcont, ?_⟩
  have hsm : ∀ x : Int, Small (intEncode x).length → True := fun _ _ => trivial
  have hr : Small (intEncode rid).length := Small.mono (by simp only [List.length_append, Ber.tlv, List.length_cons]; omega) hcont
  have ha : Small (intEncode a).length := Small.mono (by simp only [List.length_append, Ber.tlv, List.length_cons]; omega) hcont
  have hb : Small (intEncode b).length := Small.mono (by simp only [List.length_append, Ber.tlv, List.length_cons]; omega) hcont
  have hseq : readSeq (Ber.tlv 2 (intEncode rid) ++ (Ber.tlv 2 (intEncode a) ++ (Ber.tlv 2 (intEncode b) ++ vbb)))
      = some [(2, intEncode rid), (2, intEncode a), (2, intEncode b), (48, c)] := by
    have := readSeq_concat [(2, intEncode rid), (2, intEncode a), (2, intEncode b), (48, c)] (by
      intro p hp; simp at hp
      rcases hp with rfl | rfl | rfl | rfl
      · exact hr
      · exact ha
      · exact hb
      · exact hc2)
    simpa [hvbbc] using this
  unfold readPdu
  rw [hseq]
  simp [hi1, hi2, readInt_intEncode]

/-- v1 / v2c: version, community, and the PDU — nothing else in the datagram -/
theorem C05_community_request (version : Int) (comm : Bytes) (r : Ops.PduReq) (hv : ReqOk r.varbinds)
    (dg : Bytes) (he : Emit.community version comm r = some dg) (hs : Small dg.length) :
    readCommunityMsg dg = some ⟨version, comm,
      ⟨tagOf (Emit.pduClass r.kind), r.requestId, r.a, r.b, r.varbinds⟩⟩ := by
  have hp : ∃ pb, Emit.pduBytes r = some pb := by
    cases h : Emit.pduBytes r with
    | none => simp [Emit.community, h] at he
    | some x => exact ⟨x, rfl⟩
  rcases hp with ⟨pb, hpb⟩
  have hdg : dg = Ber.tlv 48 (Ber.tlv 2 (intEncode version) ++ (Ber.tlv 4 comm ++ pb)) := by
    simp [Emit.community, hpb, encodeCommunityMsg] at he; exact he.symm
  have hcont : Small (Ber.tlv 2 (intEncode version) ++ (Ber.tlv 4 comm ++ pb)).length :=
    Small.mono (Nat.le_of_lt (by rw [hdg]; exact tlv_length _ _)) hs
  have hpbs : Small pb.length := Small.mono (by simp only [List.length_append]; omega) hcont
  rcases C05_pdu _ _ _ _ _ hv pb hpb hpbs [] with ⟨c, hc1, hc2⟩
  simp only [List.append_nil] at hc1
  -- pb is one TLV
  have hpbtlv : pb = Ber.tlv (tagOf (Emit.pduClass r.kind)) c := by
    have hvb : ∃ vb, encodeVarBinds r.varbinds = some vb := by
      cases h : encodeVarBinds r.varbinds with
      | none => simp [Emit.pduBytes, encodePdu, h] at hpb
      | some x => exact ⟨x, rfl⟩
    rcases hvb with ⟨vbb, hvbb⟩
    have e1 : pb = Ber.tlv (tagOf (Emit.pduClass r.kind)) (Ber.tlv 2 (intEncode r.requestId) ++ (Ber.tlv 2 (intEncode r.a) ++ (Ber.tlv 2 (intEncode r.b) ++ vbb))) := by
      simp [Emit.pduBytes, encodePdu, hvbb] at hpb; exact hpb.symm
    rw [e1] at hc1
    have hsm : Small (Ber.tlv 2 (intEncode r.requestId) ++ (Ber.tlv 2 (intEncode r.a) ++ (Ber.tlv 2 (intEncode r.b) ++ vbb))).length :=
      Small.mono (Nat.le_of_lt (by rw [e1]; exact tlv_length _ _)) hpbs
    have := readTLV_tlv (tagOf (Emit.pduClass r.kind)) _ [] hsm
    simp only [List.append_nil] at this
    rw [this] at hc1
    simp at hc1
    rw [e1, hc1]
  have hcs : Small c.length := Small.mono (Nat.le_of_lt (by rw [hpbtlv]; exact tlv_length _ _)) hpbs
  unfold readCommunityMsg
  have h1 := readTLV_tlv 48 (Ber.tlv 2 (intEncode version) ++ (Ber.tlv 4 comm ++ pb)) [] hcont
  simp only [List.append_nil] at h1
  rw [hdg, h1]
  have hseq : readSeq (Ber.tlv 2 (intEncode version) ++ (Ber.tlv 4 comm ++ pb))
      = some [(2, intEncode version), (4, comm), (tagOf (Emit.pduClass r.kind), c)] := by
    have := readSeq_concat [(2, intEncode version), (4, comm), (tagOf (Emit.pduClass r.kind), c)] (by
      intro p hp; simp at hp
      rcases hp with rfl | rfl | rfl
      · exact Small.mono (by simp only [List.length_append, Ber.tlv, List.length_cons]; omega) hcont
      · exact Small.mono (by simp only [List.length_append, Ber.tlv, List.length_cons]; omega) hcont
      · exact hcs)
    simpa [hpbtlv] using this
  simp [hseq, readInt_intEncode, hc2]

/-- SNMPv3: header (message id, max size, flags, security model 3), USM security parameters
    (engine id, boots, time, user, authentication and privacy parameters) and the msgData field
    (scoped PDU sequence, or the ciphertext OCTET STRING) are read back — nothing else is in the
    datagram. -/
theorem C05_v3_request (p : Emit.V3Params) (dt : Nat) (d : Bytes)
    (hs : Small (Emit.v3Around p (Ber.tlv dt d)).length) :
    readV3Msg (Emit.v3Around p (Ber.tlv dt d)) =
      some ⟨p.msgId, p.maxSize, p.flags, 3, p.engineId, p.boots, p.time, p.user, p.authParams, p.privParams, dt, d⟩ := by
  -- abbreviations for the three inner structures
  let hdrC := Ber.tlv 2 (intEncode p.msgId) ++ (Ber.tlv 2 (intEncode p.maxSize) ++ (Ber.tlv 4 [p.flags] ++ Ber.tlv 2 (intEncode 3)))
  let spC := Ber.tlv 4 p.engineId ++ (Ber.tlv 2 (intEncode p.boots) ++ (Ber.tlv 2 (intEncode p.time) ++
    (Ber.tlv 4 p.user ++ (Ber.tlv 4 p.authParams ++ Ber.tlv 4 p.privParams))))
  let outerC := Ber.tlv 2 (intEncode 3) ++ (Ber.tlv 48 hdrC ++ (Ber.tlv 4 (Ber.tlv 48 spC) ++ Ber.tlv dt d))
  have hdg : Emit.v3Around p (Ber.tlv dt d) = Ber.tlv 48 outerC := by
    simp [Emit.v3Around, encodeV3Msg, encodeHeader, encodeUsmParams, outerC, hdrC, spC]
  rw [hdg] at hs ⊢
  have hO : Small outerC.length := Small.mono (Nat.le_of_lt (tlv_length _ _)) hs
  have le_tlv : ∀ t (c : Bytes), c.length ≤ (Ber.tlv t c).length := fun t c => Nat.le_of_lt (tlv_length t c)
  have hH : Small hdrC.length := Small.mono (by
    have := le_tlv 48 hdrC; simp only [outerC, List.length_append]; omega) hO
  have hSPt : Small (Ber.tlv 48 spC).length := Small.mono (by
    have := le_tlv 4 (Ber.tlv 48 spC); simp only [outerC, List.length_append]; omega) hO
  have hSP : Small spC.length := Small.mono (le_tlv 48 spC) hSPt
  have hD : Small d.length := Small.mono (by
    have := le_tlv dt d; simp only [outerC, List.length_append]; omega) hO
  have h3 : Small (intEncode 3).length := Small.mono (by
    have := le_tlv 2 (intEncode 3); simp only [outerC, List.length_append]; omega) hO
  unfold readV3Msg
  have h1 := readTLV_tlv 48 outerC [] hO
  simp only [List.append_nil] at h1
  rw [h1]
  have hseqO : readSeq outerC = some [(2, intEncode 3), (48, hdrC), (4, Ber.tlv 48 spC), (dt, d)] := by
    have := readSeq_concat [(2, intEncode 3), (48, hdrC), (4, Ber.tlv 48 spC), (dt, d)] (by
      intro q hq; simp at hq
      rcases hq with rfl | rfl | rfl | rfl
      · exact h3
      · exact hH
      · exact hSPt
      · exact hD)
    simpa [outerC] using this
  have hseqH : readSeq hdrC = some [(2, intEncode p.msgId), (2, intEncode p.maxSize), (4, [p.flags]), (2, intEncode 3)] := by
    have := readSeq_concat [(2, intEncode p.msgId), (2, intEncode p.maxSize), (4, [p.flags]), (2, intEncode 3)] (by
      intro q hq; simp at hq
      rcases hq with rfl | rfl | rfl | rfl
      · exact Small.mono (by have := le_tlv 2 (intEncode p.msgId); simp only [hdrC, List.length_append]; omega) hH
      · exact Small.mono (by have := le_tlv 2 (intEncode p.maxSize); simp only [hdrC, List.length_append]; omega) hH
      · simp [Small]
      · exact h3)
    simpa [hdrC] using this
  have hseqS : readSeq spC = some [(4, p.engineId), (2, intEncode p.boots), (2, intEncode p.time), (4, p.user),
      (4, p.authParams), (4, p.privParams)] := by
    have := readSeq_concat [(4, p.engineId), (2, intEncode p.boots), (2, intEncode p.time), (4, p.user),
      (4, p.authParams), (4, p.privParams)] (by
      intro q hq; simp at hq
      rcases hq with rfl | rfl | rfl | rfl | rfl | rfl
      · exact Small.mono (by have := le_tlv 4 p.engineId; simp only [spC, List.length_append]; omega) hSP
      · exact Small.mono (by have := le_tlv 2 (intEncode p.boots); simp only [spC, List.length_append]; omega) hSP
      · exact Small.mono (by have := le_tlv 2 (intEncode p.time); simp only [spC, List.length_append]; omega) hSP
      · exact Small.mono (by have := le_tlv 4 p.user; simp only [spC, List.length_append]; omega) hSP
      · exact Small.mono (by have := le_tlv 4 p.authParams; simp only [spC, List.length_append]; omega) hSP
      · exact Small.mono (by have := le_tlv 4 p.privParams; simp only [spC, List.length_append]; omega) hSP)
    simpa [spC] using this
  have hsp := readTLV_tlv 48 spC [] hSP
  simp only [List.append_nil] at hsp
  simp [hseqO, hseqH, hsp, hseqS, readInt_intEncode]

/-- the scoped PDU inside: context engine id, context name and the request PDU -/
theorem C05_v3_scoped (p : Emit.V3Params) (r : Ops.PduReq) (hv : ReqOk r.varbinds) (sb : Bytes)
    (he : Emit.scopedBytes p r = some sb) (hs : Small sb.length) :
    ∃ c, sb = Ber.tlv 48 c ∧ readScoped c = some ⟨p.ctxEngine, p.ctxName,
      ⟨tagOf (Emit.pduClass r.kind), r.requestId, r.a, r.b, r.varbinds⟩⟩ := by
  have hp : ∃ pb, Emit.pduBytes r = some pb := by
    cases h : Emit.pduBytes r with
    | none => simp [Emit.scopedBytes, h] at he
    | some x => exact ⟨x, rfl⟩
  rcases hp with ⟨pb, hpb⟩
  have hsb : sb = Ber.tlv 48 (Ber.tlv 4 p.ctxEngine ++ (Ber.tlv 4 p.ctxName ++ pb)) := by
    simp [Emit.scopedBytes, hpb, encodeScoped] at he; exact he.symm
  have hcont : Small (Ber.tlv 4 p.ctxEngine ++ (Ber.tlv 4 p.ctxName ++ pb)).length :=
    Small.mono (Nat.le_of_lt (by rw [hsb]; exact tlv_length _ _)) hs
  have hpbs : Small pb.length := Small.mono (by simp only [List.length_append]; omega) hcont
  rcases C05_pdu _ _ _ _ _ hv pb hpb hpbs [] with ⟨c, hc1, hc2⟩
  simp only [List.append_nil] at hc1
  have hpbtlv : pb = Ber.tlv (tagOf (Emit.pduClass r.kind)) c := by
    have hvb : ∃ vb, encodeVarBinds r.varbinds = some vb := by
      cases h : encodeVarBinds r.varbinds with
      | none => simp [Emit.pduBytes, encodePdu, h] at hpb
      | some x => exact ⟨x, rfl⟩
    rcases hvb with ⟨vbb, hvbb⟩
    have e1 : pb = Ber.tlv (tagOf (Emit.pduClass r.kind)) (Ber.tlv 2 (intEncode r.requestId) ++ (Ber.tlv 2 (intEncode r.a) ++ (Ber.tlv 2 (intEncode r.b) ++ vbb))) := by
      simp [Emit.pduBytes, encodePdu, hvbb] at hpb; exact hpb.symm
    rw [e1] at hc1
    have hsm : Small (Ber.tlv 2 (intEncode r.requestId) ++ (Ber.tlv 2 (intEncode r.a) ++ (Ber.tlv 2 (intEncode r.b) ++ vbb))).length :=
      Small.mono (Nat.le_of_lt (by rw [e1]; exact tlv_length _ _)) hpbs
    have := readTLV_tlv (tagOf (Emit.pduClass r.kind)) _ [] hsm
    simp only [List.append_nil] at this
    rw [this] at hc1
    simp at hc1
    rw [e1, hc1]
  have hcs : Small c.length := Small.mono (Nat.le_of_lt (by rw [hpbtlv]; exact tlv_length _ _)) hpbs
  refine ⟨_, hsb, ?_⟩
  unfold readScoped
  have hseq : readSeq (Ber.tlv 4 p.ctxEngine ++ (Ber.tlv 4 p.ctxName ++ pb))
      = some [(4, p.ctxEngine), (4, p.ctxName), (tagOf (Emit.pduClass r.kind), c)] := by
    have := readSeq_concat [(4, p.ctxEngine), (4, p.ctxName), (tagOf (Emit.pduClass r.kind), c)] (by
      intro q hq; simp at hq
      rcases hq with rfl | rfl | rfl
      · exact Small.mono (by simp only [List.length_append, Ber.tlv, List.length_cons]; omega) hcont
      · exact Small.mono (by simp only [List.length_append, Ber.tlv, List.length_cons]; omega) hcont
      · exact hcs)
    simpa [hpbtlv] using this
  simp [hseq, hc2]

/-- Each API operation builds exactly the intended record: PDU type per operation, the single
    clock value as request-id, zero error fields (or non-repeaters / max-repetitions), the caller's
    OIDs in order bound to NULL, or the caller's typed SET values. -/
theorem C05_request_of_op (proto : Ops.Proto) (rid : Int) (oids scalars reps : List Oid)
    (mappings : List VarBind) (maxList : Int) :
    (Ops.multiget proto oids).request rid = ⟨.get, rid, 0, 0, oids.map (·, Val.null)⟩ ∧
    (Ops.multigetnext proto oids).request rid = ⟨.getnext, rid, 0, 0, oids.map (·, Val.null)⟩ ∧
    (Ops.multiset proto mappings).request rid = ⟨.set, rid, 0, 0, mappings⟩ ∧
    (Ops.bulkget proto scalars reps maxList).request rid =
      ⟨.getbulk, rid, scalars.length, maxList, (scalars ++ reps).map (·, Val.null)⟩ ∧
    tagOf (Emit.pduClass .get) = 160 ∧ tagOf (Emit.pduClass .getnext) = 161 ∧
    tagOf (Emit.pduClass .set) = 163 ∧ tagOf (Emit.pduClass .getbulk) = 165 := by
  obtain ⟨h0, h1, _, h3, h5, _⟩ := pdu_tag_facts
  refine ⟨rfl, rfl, rfl, rfl, h0, h1, h3, h5⟩


/-- **The discovery probe.**  What `send_discovery_message` emits for message id `rid` is read by the
    independent reader as the RFC 3414 section 4 discovery request: message id `rid`, msgMaxSize 65507,
    flags = reportable only (generated `V3Flags.__bytes__`), security model 3, zero-length engine id,
    boots = time = 0, zero-length user name and parameters, and a plain scoped PDU with empty
    context fields holding a GetRequest with request-id `rid`, zero error fields and no bindings. -/
theorem C05_discovery_probe (rid : Int) (dg : Bytes) (he : Emit.probe rid = some dg) (hs : Small dg.length) :
    ∃ c, readV3Msg dg = some ⟨rid, 65507, 4, 3, [], 0, 0, [], [], [], 48, c⟩ ∧
      readScoped c = some ⟨[], [], ⟨160, rid, 0, 0, []⟩⟩ := by
  obtain ⟨h0, _⟩ := pdu_tag_facts
  unfold Emit.probe Emit.v3Plain at he
  cases hsb : Emit.scopedBytes (Emit.probeParams rid) ⟨.get, rid, 0, 0, []⟩ with
  | none => simp [hsb] at he
  | some sb =>
    simp only [hsb, Option.map_some, Option.some.injEq] at he
    have hle : sb.length ≤ dg.length := by
      rw [← he]
      simp only [Emit.v3Around, encodeV3Msg, Ber.tlv, List.length_cons, List.length_append]
      omega
    obtain ⟨c, hc, hread⟩ := C05_v3_scoped (Emit.probeParams rid) ⟨.get, rid, 0, 0, []⟩
      (by intro vb hvb; simp at hvb) sb hsb (Small.mono hle hs)
    refine ⟨c, ?_, ?_⟩
    · rw [← he, hc]
      have := C05_v3_request (Emit.probeParams rid) 48 c (by rw [← hc, he]; exact hs)
      rw [this]
      simp only [Emit.probeParams]
      have hm : (Gen.messageMaxSize : Int) = 65507 := by decide
      have hf : (Gen.flagsEncode false false true).toNat = 4 := by decide
      rw [hf]
      simp [hm]
    · rw [hread]
      simp only [Emit.probeParams, Emit.pduClass, h0]

/- non-vacuity: the hypotheses are met by an ordinary request -/
example : ReqOk [([1, 3, 6, 1, 2, 1], .null), ([1, 3, 6, 1, 4, 1, 4294967295], .str [104, 105])] := by
  intro vb hvb
  simp at hvb
  rcases hvb with rfl | rfl
  · exact ⟨⟨1, 3, [6, 1, 2, 1], rfl, by omega, by omega⟩, trivial⟩
  · exact ⟨⟨1, 3, [6, 1, 4, 1, 4294967295], rfl, by omega, by omega⟩, by simp [SetVal, Small]⟩

end Snmp.Props.C05
