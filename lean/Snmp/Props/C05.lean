import Snmp.Model.Ber
namespace Snmp.Props.C05
end Snmp.Props.C05
