#!/usr/bin/env python3
"""
tools/keep_mutant.py <Cxx> <n> "<what it needs to manifest>" [check ids to run, default the property]
Confirms a sub-agent's seeded change in its scratch worktree /tmp/mut/<Cxx> (suite still passes,
demo passes without / fails with the change), runs the registered quick checks against it in /repo
(apply, run, revert) and stores it under /verif/seeded/<Cxx>-<n>/.
"""
import json, os, re, shutil, subprocess, sys

prop, n, needs = sys.argv[1], sys.argv[2], sys.argv[3]
checks = sys.argv[4:] or [prop]
wt = f"/tmp/mut/{prop}"
patch = f"{wt}/mutant_{n}.diff"
demo = f"{wt}/demo_{prop}_{n}.py"
if not os.path.exists(demo):
    demo = f"{wt}/demo_{prop}.py"
env = dict(os.environ, PYTHONPATH=f"{wt}/src")

def sh(cmd, cwd=wt, timeout=1800):
    p = subprocess.run(cmd, cwd=cwd, shell=True, capture_output=True, text=True, env=env, timeout=timeout)
    return p.returncode, (p.stdout + p.stderr)

ran = {}
sh("git checkout -- src")
rc, out = sh(f"/venv/bin/python {demo}")
ran["demo_on_original"] = {"exit": rc, "tail": out.strip().splitlines()[-1:] }
rc_a, out = sh(f"git apply {patch}")
assert rc_a == 0, out
rc, out = sh("/venv/bin/python -m pytest -q -p no:cacheprovider --timeout=900 2>&1 | tail -1")
ran["suite_with_change"] = out.strip()
rc, out = sh(f"/venv/bin/python {demo}")
ran["demo_with_change"] = {"exit": rc, "tail": out.strip().splitlines()[-1:]}
sh("git checkout -- src")
ok = ran["demo_on_original"]["exit"] == 0 and ran["demo_with_change"]["exit"] != 0 and re.search(r"\b174 passed", ran["suite_with_change"]) and not re.search(r"\b\d+ (failed|error)", ran["suite_with_change"])
print(json.dumps(ran, indent=1))
if not ok:
    print("NOT CONFIRMED"); sys.exit(1)
# run the checks with the change applied: to /repo itself (reverted afterwards), or — KM_PRIVATE=1 — to
# a private worktree of /repo with a private copy of /verif (VERIF_REPO), leaving /repo and /verif alone
res = {}
if os.environ.get("KM_PRIVATE"):
    # KM_SRC: the copy of /verif to run (default /verif itself; a stable snapshot while /verif is being edited)
    tag = f"{prop}-{n}"
    rc, vs = f"/tmp/rck-{tag}", f"/tmp/vsk-{tag}/verif"
    src = os.environ.get("KM_SRC", "/verif").rstrip("/")
    subprocess.run(f"git -C /repo worktree remove --force {rc} 2>/dev/null; git -C /repo worktree add --detach {rc} HEAD >/dev/null 2>&1", shell=True)
    subprocess.run(f"mkdir -p /tmp/vsk-{tag} && rsync -a --delete {src}/ {vs}/", shell=True, check=True)
    subprocess.run(f"git -C {rc} apply {patch}", shell=True, check=True)
    try:
        for c in checks:
            p = subprocess.run(f"cd {vs} && VERIF_REPO={rc} ./check {c} --tier quick", shell=True, capture_output=True, text=True, timeout=3000)
            lines = (p.stdout + p.stderr).strip().splitlines()
            res[c] = {"exit": p.returncode, "violation_lines": [l for l in lines if l.startswith("VIOLATION")][:3], "summary": lines[-1:] }
    finally:
        subprocess.run(f"git -C /repo worktree remove --force {rc}", shell=True)
        subprocess.run(f"mkdir -p /tmp/km-replays/{tag}; cp {vs}/replays/*.json /tmp/km-replays/{tag}/ 2>/dev/null | head -0; rm -rf /tmp/vsk-{tag}", shell=True)
else:
    assert subprocess.run("git -C /repo status --porcelain -- src", shell=True, capture_output=True, text=True).stdout.strip() == ""
    subprocess.run(f"git -C /repo apply {patch}", shell=True, check=True)
    evsave = subprocess.run("mktemp -d", shell=True, capture_output=True, text=True).stdout.strip()
    subprocess.run(f"cp -a /verif/evidence/. {evsave}/", shell=True, check=True)  # evidence written under a seeded change must not survive
    try:
        for c in checks:
            p = subprocess.run(f"cd /verif && ./check {c} --tier quick", shell=True, capture_output=True, text=True, timeout=3000)
            lines = (p.stdout + p.stderr).strip().splitlines()
            res[c] = {"exit": p.returncode, "violation_lines": [l for l in lines if l.startswith("VIOLATION")][:3], "summary": lines[-1:] }
    finally:
        subprocess.run("git -C /repo checkout -- .", shell=True, check=True)
        subprocess.run(f"cp -a {evsave}/. /verif/evidence/ && rm -rf {evsave}", shell=True, check=True)
print(json.dumps(res, indent=1))
d = f"/verif/seeded/{prop}-{n}"
os.makedirs(d, exist_ok=True)
shutil.copy(patch, f"{d}/patch.diff")
shutil.copy(demo, f"{d}/demo.py")
json.dump({"property": prop, "needs_to_manifest": needs, "confirmed": ran, "how": "suite + demo run in a scratch worktree of /repo HEAD with PYTHONPATH=<worktree>/src; checks run with `git -C /repo apply patch.diff`, reverted afterwards", "checks_quick": res, "caught": any(v["exit"] == 1 for v in res.values())}, open(f"{d}/meta.json", "w"), indent=1)
print("kept", d, "caught" if any(v["exit"] == 1 for v in res.values()) else "MISSED")
