#!/usr/bin/env python3
"""Regenerates the generated blocks of DESIGN.md (seeded-change table, theorem inventory)."""
import glob
import json
import os
import re

ROOT = os.path.dirname(os.path.dirname(os.path.abspath(__file__)))


def seeded_table():
    rows = []
    for d in sorted(glob.glob(os.path.join(ROOT, "seeded", "*", "meta.json"))):
        m = json.load(open(d))
        sid = os.path.basename(os.path.dirname(d))
        checks = ", ".join(f"{c}: {'VIOLATION' if v['exit'] == 1 else 'exit ' + str(v['exit'])}" for c, v in m["checks_quick"].items())
        rows.append((sid, m["needs_to_manifest"], checks, ("yes (neutralised later)" if m.get("superseded_by") else "yes") if m.get("caught") else "NO", m.get("history", "caught on the first run")))
    out = ["| id | what it needs to manifest | quick checks run against it | caught | history |", "|---|---|---|---|---|"]
    for r in rows:
        out.append("| " + " | ".join(x.replace("|", "/").replace("\n", " ") for x in r) + " |")
    return "\n".join(out) + f"\n\n{len(rows)} seeded changes kept, {sum(1 for r in rows if r[3].startswith('yes'))} caught by the registered quick checks.\n"


def theorem_inventory():
    out = ["| property | theorems in `lean/Snmp/Props` |", "|---|---|"]
    for f in sorted(glob.glob(os.path.join(ROOT, "lean", "Snmp", "Props", "C*.lean"))):
        text = open(f).read()
        names = re.findall(r"^theorem\s+(C\d\d_\w+)", text, flags=re.M)
        out.append(f"| {os.path.basename(f)[:-5]} | " + ", ".join(f"`{n}`" for n in names) + " |")
    return "\n".join(out) + "\n"


def main():
    path = os.path.join(ROOT, "DESIGN.md")
    s = open(path).read()
    for tag, gen in (("SEEDED", seeded_table), ("THEOREMS", theorem_inventory)):
        a, b = f"<!-- BEGIN {tag} -->", f"<!-- END {tag} -->"
        if a in s and b in s:
            s = s[: s.index(a) + len(a)] + "\n" + gen() + s[s.index(b) :]
    open(path, "w").write(s)


if __name__ == "__main__":
    main()
