#!/usr/bin/env python3
"""re-run every seeded change against the check(s) that caught it, in private copies of /repo and /verif"""
import json, os, subprocess, sys, glob
w = int(sys.argv[1]); nw = int(sys.argv[2])
rc = f"/tmp/rc{w}"; vs = f"/tmp/vs{w}/verif"
subprocess.run(f"git -C /repo worktree remove --force {rc} 2>/dev/null; git -C /repo worktree add --detach {rc} HEAD >/dev/null 2>&1", shell=True)
subprocess.run(f"mkdir -p /tmp/vs{w} && rsync -a --delete /verif/ {vs}/", shell=True, check=True)
ids = sorted(os.path.basename(d.rstrip('/')) for d in glob.glob("/verif/seeded/*/"))
ids = [x for i, x in enumerate(ids) if i % nw == w]
out = open(f"/tmp/seeded_regress_{w}.log", "a")
for sid in ids:
    meta = json.load(open(f"/verif/seeded/{sid}/meta.json"))
    prop = sid.split("-")[0]
    caught_by = [c for c, v in (meta.get("checks_quick") or {}).items() if v.get("exit") == 1]
    checks = [prop] if prop in caught_by or not caught_by else [caught_by[0]]
    r = subprocess.run(f"git -C {rc} apply /verif/seeded/{sid}/patch.diff", shell=True, capture_output=True, text=True)
    if r.returncode != 0:
        out.write(f"{sid} NOAPPLY\n"); out.flush(); continue
    res = []
    for c in checks:
        try:
            p = subprocess.run(f"cd {vs} && VERIF_REPO={rc} timeout 1500 ./check {c} --tier quick", shell=True, capture_output=True, text=True, timeout=1600)
            res.append((c, p.returncode))
        except subprocess.TimeoutExpired:
            res.append((c, "timeout"))
    subprocess.run(f"git -C {rc} checkout -- .", shell=True)
    verdict = "caught" if any(rc_ == 1 for _c, rc_ in res) else "MISSED"
    out.write(f"{sid} {verdict} {res}\n"); out.flush()
subprocess.run(f"git -C /repo worktree remove --force {rc}", shell=True)
out.write("DONE\n"); out.close()
