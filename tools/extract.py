#!/venv/bin/python
"""
Fact extractor + mini translator (Python subset -> Lean 4).

Regenerates lean/Snmp/Gen/Facts.lean from the *current working tree* of the repository
(default /repo, override with VERIF_REPO).  Two kinds of facts:

 * reflected data (type registry, PDU tags, error table, constants, ...), obtained by
   importing the working tree's modules;
 * translated bodies: a deliberately tiny translator for straight-line integer code
   (assignments, augmented assignments, if / if-expressions, arithmetic, comparisons,
   & | << >> // % **, bool()/int()) applied to the AST of a handful of methods.

The file is only rewritten when its content changes (so an unchanged tree never triggers a
rebuild).  A JSON status file (Gen/status.json) lists facts that could not be extracted; the
check treats each of them as a broken proof obligation (never, by itself, as a violation).
"""
import ast
import hashlib
import inspect
import json
import os
import sys
import textwrap
import warnings

REPO = os.environ.get("VERIF_REPO", "/repo")
HERE = os.path.dirname(os.path.abspath(__file__))
OUT = os.path.join(HERE, "..", "lean", "Snmp", "Gen", "Facts.lean")
STATUS = os.path.join(HERE, "..", "lean", "Snmp", "Gen", "status.json")

sys.path.insert(0, os.path.join(REPO, "src"))
warnings.simplefilter("ignore")


class Untranslatable(Exception):
    pass


# --------------------------------------------------------------------------------------
# mini translator
# --------------------------------------------------------------------------------------
class Tr:
    """Translate a function body to a Lean expression of type Int (or a tuple of Bool)."""

    def __init__(self, env, consts=None, true_calls=(), false_calls=()):
        self.env = dict(env)  # python name -> lean name
        self.consts = consts or {}
        self.true_calls = true_calls
        self.false_calls = false_calls

    # expressions ------------------------------------------------------------------
    def expr(self, e):
        if isinstance(e, ast.Constant):
            if isinstance(e.value, bool):
                return "true" if e.value else "false"
            if isinstance(e.value, int):
                return f"({e.value} : Int)"
            raise Untranslatable(f"constant {e.value!r}")
        if isinstance(e, ast.Name):
            if e.id in self.env:
                return self.env[e.id]
            if e.id in self.consts:
                return f"({self.consts[e.id]} : Int)"
            raise Untranslatable(f"name {e.id}")
        if isinstance(e, ast.Attribute):
            key = ast.unparse(e)
            if key in self.env:
                return self.env[key]
            raise Untranslatable(f"attribute {key}")
        if isinstance(e, ast.BinOp):
            a, b = self.expr(e.left), self.expr(e.right)
            op = e.op
            if isinstance(op, ast.Add):
                return f"({a} + {b})"
            if isinstance(op, ast.Sub):
                return f"({a} - {b})"
            if isinstance(op, ast.Mult):
                return f"({a} * {b})"
            if isinstance(op, ast.FloorDiv):
                k = self.posconst(e.right)
                return f"({a} / ({k} : Int))"
            if isinstance(op, ast.Mod):
                k = self.posconst(e.right)
                return f"({a} % ({k} : Int))"
            if isinstance(op, ast.Pow):
                base, k = self.posconst(e.left), self.posconst(e.right)
                return f"({base ** k} : Int)"
            if isinstance(op, ast.BitAnd):
                return f"(Snmp.Py.land {a} {b})"
            if isinstance(op, ast.BitOr):
                return f"(Snmp.Py.lor {a} {b})"
            if isinstance(op, ast.LShift):
                return f"(Snmp.Py.shl {a} {self.posconst(e.right)})"
            if isinstance(op, ast.RShift):
                return f"(Snmp.Py.shr {a} {self.posconst(e.right)})"
            raise Untranslatable(f"binop {type(op).__name__}")
        if isinstance(e, ast.IfExp):
            return f"(if {self.cond(e.test)} then {self.expr(e.body)} else {self.expr(e.orelse)})"
        if isinstance(e, ast.Call):
            fn = ast.unparse(e.func)
            if fn == "int" and len(e.args) == 1:
                a = e.args[0]
                # int(<bool>) -> 0/1
                try:
                    c = self.cond(a, strict_bool=True)
                    return f"(if {c} then (1 : Int) else 0)"
                except Untranslatable:
                    return self.expr(a)
            if fn in ("min", "max") and len(e.args) == 2:
                a, b = self.expr(e.args[0]), self.expr(e.args[1])
                return f"({fn} {a} {b})"
            if fn == "len" and len(e.args) == 1:
                key = ast.unparse(e)
                if key in self.env:
                    return self.env[key]
            raise Untranslatable(f"call {fn}")
        if isinstance(e, ast.UnaryOp) and isinstance(e.op, ast.USub):
            return f"(- {self.expr(e.operand)})"
        raise Untranslatable(f"expr {type(e).__name__}: {ast.unparse(e)}")

    def posconst(self, e):
        try:
            v = eval(compile(ast.Expression(e), "<c>", "eval"), {"__builtins__": {}}, dict(self.consts))
        except Exception as exc:  # noqa
            raise Untranslatable(f"non-constant operand {ast.unparse(e)}")
        if not isinstance(v, int) or v < 0:
            raise Untranslatable(f"operand {ast.unparse(e)} = {v!r}")
        return v

    def cond(self, e, strict_bool=False):
        if isinstance(e, ast.Compare) and len(e.ops) > 1:
            # a <= b <= c  ==  (a <= b) and (b <= c)  (the operands here are side-effect free)
            parts, left = [], e.left
            for op, right in zip(e.ops, e.comparators):
                parts.append(self.cond(ast.Compare(left=left, ops=[op], comparators=[right])))
                left = right
            return "(" + " ∧ ".join(parts) + ")"
        if isinstance(e, ast.Compare) and len(e.ops) == 1:
            a, b = self.expr(e.left), self.expr(e.comparators[0])
            ops = {ast.Lt: "<", ast.LtE: "≤", ast.Gt: ">", ast.GtE: "≥", ast.Eq: "=", ast.NotEq: "≠"}
            for k, v in ops.items():
                if isinstance(e.ops[0], k):
                    return f"({a} {v} {b})"
            raise Untranslatable("compare op")
        if isinstance(e, ast.UnaryOp) and isinstance(e.op, ast.Not):
            inner = self.cond(e.operand)
            if inner in ("True", "False"):
                return "False" if inner == "True" else "True"
            return f"(¬ {inner})"
        if isinstance(e, ast.BoolOp):
            parts = [self.cond(v) for v in e.values]
            j = " ∧ " if isinstance(e.op, ast.And) else " ∨ "
            return "(" + j.join(parts) + ")"
        if isinstance(e, ast.Call):
            fn = ast.unparse(e.func)
            if fn == "bool" and len(e.args) == 1:
                return f"({self.expr(e.args[0])} ≠ 0)"
            if fn == "isinstance":
                key = ast.unparse(e)
                if key in self.true_calls:
                    return "True"
                if key in self.false_calls:
                    return "False"
            raise Untranslatable(f"cond call {ast.unparse(e)}")
        if isinstance(e, (ast.Name, ast.Attribute)):
            key = ast.unparse(e)
            if key in self.env and self.env[key].startswith("(b:"):
                return f"({self.env[key][3:-1]} = true)"
            if strict_bool:
                raise Untranslatable("not a bool")
            return f"({self.expr(e)} ≠ 0)"
        if strict_bool:
            raise Untranslatable("not a bool")
        return f"({self.expr(e)} ≠ 0)"

    # statements -------------------------------------------------------------------
    def block(self, stmts, k):
        """Translate stmts followed by continuation k (a function env->lean string)."""
        if not stmts:
            return k(self)
        s, rest = stmts[0], stmts[1:]
        if isinstance(s, ast.Expr) and isinstance(s.value, ast.Constant):
            return self.block(rest, k)  # docstring
        if isinstance(s, ast.Assign) and len(s.targets) == 1 and isinstance(s.targets[0], ast.Name):
            name = s.targets[0].id
            val = self.expr(s.value)
            return self.bind(name, val, rest, k)
        if isinstance(s, ast.AugAssign) and isinstance(s.target, ast.Name):
            name = s.target.id
            fake = ast.BinOp(left=ast.Name(id=name, ctx=ast.Load()), op=s.op, right=s.value)
            val = self.expr(fake)
            return self.bind(name, val, rest, k)
        if isinstance(s, ast.If):
            c = self.cond(s.test)
            if c == "True":
                return self.block(list(s.body) + rest, k)
            if c == "False":
                return self.block(list(s.orelse) + rest, k)
            a = Tr(self.env, self.consts, self.true_calls, self.false_calls).block(list(s.body) + rest, k)
            b = Tr(self.env, self.consts, self.true_calls, self.false_calls).block(list(s.orelse) + rest, k)
            return f"(if {c} then {a} else {b})"
        if isinstance(s, ast.Return):
            return self.ret(s.value)
        if isinstance(s, ast.Expr) and isinstance(s.value, ast.Call) and ast.unparse(s.value.func) == "super().__init__":
            return self.expr(s.value.args[0])
        raise Untranslatable(f"stmt {type(s).__name__}: {ast.unparse(s)[:60]}")

    def bind(self, name, val, rest, k):
        n = sum(1 for v in self.env.values() if v.split("_")[0] == name) if False else 0
        fresh = f"{name}_{len(self.env)}"
        inner = Tr({**self.env, name: fresh}, self.consts, self.true_calls, self.false_calls)
        return f"(let {fresh} : Int := {val}; {inner.block(rest, k)})"

    def ret(self, e):
        return self.expr(e)


def func_ast(obj):
    src = textwrap.dedent(inspect.getsource(obj))
    return ast.parse(src).body[0]


def find_stmt_slice(fn, start_pred, end_pred):
    body = fn.body
    i = next(i for i, s in enumerate(body) if start_pred(s))
    j = next(j for j, s in enumerate(body) if j >= i and end_pred(s))
    return body[i : j + 1]


# --------------------------------------------------------------------------------------
def lean_str(s):
    return json.dumps(s, ensure_ascii=False)


def lean_list(items):
    return "[" + ", ".join(items) + "]"


def main():
    status = {"untranslatable": {}, "missing": {}}
    out = []
    w = out.append
    w("/- AUTOGENERATED by tools/extract.py from the repository working tree. Do not edit. -/")
    w("import Snmp.Model.Py")
    w("set_option linter.unusedVariables false")
    w("namespace Snmp.Gen")
    w("")

    import puresnmp.types as T
    import puresnmp.pdu as P
    import puresnmp.exc as E
    import puresnmp.adt as A
    import puresnmp.const as C
    import puresnmp.transport as TR
    import puresnmp.credentials as CR
    from puresnmp.api import raw as RAW
    from x690.types import X690Type, Integer
    import x690.types as XT

    # ---- translated bodies ---------------------------------------------------------
    def body_def(name, params, builder, stub):
        try:
            expr = builder()
            w(f"def {name} {params} := {expr}")
        except Exception as exc:  # Untranslatable or anything structural
            status["untranslatable"][name] = f"{type(exc).__name__}: {exc}"
            w(f"-- UNTRANSLATABLE {name}: {type(exc).__name__}: {str(exc)[:100]}")
            w(f"def {name} {params} := {stub}")
        w("")

    def counter_builder(cls):
        def b():
            fn = func_ast(cls.__init__)
            tr = Tr(
                {"value": "value"},
                false_calls=("isinstance(value, _SENTINEL_UNINITIALISED)",),
            )
            return tr.block(fn.body, lambda t: t.env["value"])

        return b

    body_def("counter32Init", "(value : Int) : Int", counter_builder(T.Counter), "0")
    body_def("counter64Init", "(value : Int) : Int", counter_builder(T.Counter64), "0")

    def ticks_builder():
        # TimeTicks.__init__ with a timedelta argument; the timedelta is modelled as its exact
        # number of microseconds.  Only integer arithmetic on it is translatable:
        #     value // timedelta(milliseconds=K)   ->  us / (K*1000)
        fn = func_ast(T.TimeTicks.__init__)
        stmts = [s for s in fn.body if not (isinstance(s, ast.Expr) and isinstance(s.value, ast.Constant))]
        first = stmts[0]
        if not (isinstance(first, ast.If) and ast.unparse(first.test) == "isinstance(value, timedelta)"):
            raise Untranslatable("unexpected structure")
        if len(first.body) != 1 or not isinstance(first.body[0], ast.Assign):
            raise Untranslatable("unexpected timedelta branch")
        rhs = first.body[0].value

        def td_const(e):
            # timedelta(milliseconds=K) / timedelta(microseconds=K) / timedelta(seconds=K)
            if isinstance(e, ast.Call) and ast.unparse(e.func) == "timedelta" and not e.args and len(e.keywords) == 1:
                kw = e.keywords[0]
                if isinstance(kw.value, ast.Constant) and isinstance(kw.value.value, int):
                    mult = {"microseconds": 1, "milliseconds": 1000, "seconds": 10**6}.get(kw.arg)
                    if mult:
                        return kw.value.value * mult
            raise Untranslatable(f"not a constant timedelta: {ast.unparse(e)}")

        if isinstance(rhs, ast.BinOp) and isinstance(rhs.op, ast.FloorDiv) and ast.unparse(rhs.left) == "value":
            k = td_const(rhs.right)
            if k <= 0:
                raise Untranslatable("non-positive divisor")
            return f"(us / ({k} : Int))"
        raise Untranslatable(f"non-integer conversion: {ast.unparse(rhs)}")

    body_def("ticksOfMicros", "(us : Int) : Int", ticks_builder, "0")

    def flags_decode_builder():
        fn = func_ast(A.V3Flags.decode)
        # flags = int.from_bytes(blob.pythonize(), "big")  is the parameter
        stmts = [s for s in fn.body if not (isinstance(s, ast.Expr) and isinstance(s.value, ast.Constant))]
        if "int.from_bytes(blob.pythonize(), 'big')" not in ast.unparse(stmts[0]):
            raise Untranslatable("unexpected first statement")
        names = {}
        for s in stmts[1:-1]:
            if not (isinstance(s, ast.Assign) and isinstance(s.targets[0], ast.Name)):
                raise Untranslatable("unexpected statement")
            tr = Tr({"flags": "flags"})
            names[s.targets[0].id] = "decide " + tr.cond(s.value)
        ret = stmts[-1]
        if not (isinstance(ret, ast.Return) and ast.unparse(ret.value.func) == "V3Flags"):
            raise Untranslatable("unexpected return")
        order = [a.id for a in ret.value.args]
        fields = list(A.V3Flags.__dataclass_fields__)
        got = dict(zip(fields, order))
        return "(" + ", ".join(f"({names[got[f]]})" for f in ["auth", "priv", "reportable"]) + ")"

    body_def("flagsDecode", "(flags : Int) : Bool × Bool × Bool", flags_decode_builder, "(false, false, false)")

    def flags_encode_builder():
        fn = func_ast(A.V3Flags.__bytes__)
        tr = Tr({"self.auth": "(b:auth)", "self.priv": "(b:priv)", "self.reportable": "(b:reportable)"})
        stmts = list(fn.body)
        last = stmts[-1]
        if ast.unparse(last) != "return bytes([value])":
            raise Untranslatable("unexpected return")
        return tr.block(stmts[:-1], lambda t: t.env["value"])

    body_def("flagsEncode", "(auth priv reportable : Bool) : Int", flags_encode_builder, "0")

    def bulk_bound_builder():
        # statements n = ..., m = ..., r = ..., expected_max_varbinds = ... in whichever Client
        # method performs the GETBULK exchange
        wanted = ["n", "m", "r", "expected_max_varbinds"]
        sel = None
        for name, member in vars(RAW.Client).items():
            if not inspect.isfunction(member):
                continue
            stmts = func_ast(member).body
            cand = [s for s in stmts if isinstance(s, ast.Assign) and isinstance(s.targets[0], ast.Name) and s.targets[0].id in wanted]
            if [s.targets[0].id for s in cand] == wanted:
                sel = cand
                break
        if sel is None:
            raise Untranslatable("bound statements not found")
        tr = Tr({"non_repeaters": "nonRepeaters", "len(oids)": "nOids", "max_list_size": "maxListSize"})
        return tr.block(sel, lambda t: t.env["expected_max_varbinds"])

    body_def("bulkBound", "(nonRepeaters nOids maxListSize : Int) : Int", bulk_bound_builder, "0")

    def error_index_builder():
        # PDU.decode_raw: `if <cond on error_index.value and len(varbinds)>: offending_oid = varbinds[error_index.value - 1].oid`
        fn = func_ast(P.PDU.decode_raw.__func__)
        for node in ast.walk(fn):
            def sel(t):
                return isinstance(t, ast.Assign) and ast.unparse(t.targets[0]) == "offending_oid" and not (isinstance(t.value, ast.Constant) and t.value.value is None)

            if isinstance(node, ast.If) and any(sel(t) for t in node.body):
                idx = next(t for t in node.body if sel(t))
                if ast.unparse(idx.value) != "varbinds[error_index.value - 1].oid":
                    raise Untranslatable("offending OID is no longer varbinds[error_index.value - 1].oid: " + ast.unparse(idx.value))
                tr = Tr({"error_index.value": "errorIndex", "len(varbinds)": "nVarbinds"})
                return f"decide {tr.cond(node.test)}"
        raise Untranslatable("offending-OID selection not found in PDU.decode_raw")

    body_def("errorIndexInRange", "(errorIndex nVarbinds : Int) : Bool", error_index_builder, "false")

    def response_id_builder():
        import puresnmp.util as U0

        fn = func_ast(U0.validate_response_id)
        stmts = [s for s in fn.body if not (isinstance(s, ast.Expr) and isinstance(s.value, ast.Constant))]
        if len(stmts) != 1 or not isinstance(stmts[0], ast.If) or stmts[0].orelse:
            raise Untranslatable("validate_response_id is no longer a single guarded raise")
        body = stmts[0].body
        if len(body) != 1 or not isinstance(body[0], ast.Raise) or "InvalidResponseId" not in ast.unparse(body[0]):
            raise Untranslatable("validate_response_id does not raise InvalidResponseId under its guard")
        tr = Tr({"request_id": "requestId", "response_id": "responseId"})
        return f"decide {tr.cond(stmts[0].test)}"

    body_def("responseIdRefused", "(requestId responseId : Int) : Bool", response_id_builder, "true")

    # V3MPM.encode: the engine time put into a request is the discovered time plus the whole seconds
    # elapsed on the client's monotonic clock since the discovery data was stamped.  `now` and `stamp`
    # are instants in tenths of a second (the time line of `Snmp.Disco`): `int(t1 - t0)` for
    # t1 >= t0 is the floor of the difference in seconds.
    def engine_time_builder():
        from puresnmp_plugins.mpm import v3 as MV3

        fn = func_ast(MV3.V3MPM.encode)
        elapsed = None
        for node in ast.walk(fn):
            if isinstance(node, ast.Assign) and len(node.targets) == 1 and ast.unparse(node.targets[0]) == "elapsed":
                if ast.unparse(node.value) != "int(time.monotonic() - self.disco_timestamp)":
                    raise Untranslatable(f"elapsed = {ast.unparse(node.value)}")
                elapsed = "((now - stamp) / (10 : Int))"
        calls = [n for n in ast.walk(fn) if isinstance(n, ast.Call) and ast.unparse(n.func).endswith("set_engine_timing")]
        if elapsed is None or len(calls) != 1 or len(calls[0].args) != 3:
            raise Untranslatable("unexpected structure of the engine-time update")
        if ast.unparse(calls[0].args[1]) != "self.disco.authoritative_engine_boots":
            raise Untranslatable(f"boots sent: {ast.unparse(calls[0].args[1])}")
        tr = Tr({"self.disco.authoritative_engine_time": "time", "elapsed": elapsed})
        return tr.expr(calls[0].args[2])

    body_def("engineTimeSent", "(time now stamp : Int) : Int", engine_time_builder, "0")

    # … and the stamp is read AFTER the discovery exchange has returned (statement order inside
    # `if not self.disco:`), and nothing else in `encode` assigns the stamp or the discovery data
    def stamp_builder():
        from puresnmp_plugins.mpm import v3 as MV3

        fn = func_ast(MV3.V3MPM.encode)
        blocks = [n for n in ast.walk(fn) if isinstance(n, ast.If) and ast.unparse(n.test) == "not self.disco"]
        if len(blocks) != 1:
            raise Untranslatable("no single `if not self.disco:` block")
        body = [ast.unparse(st) for st in blocks[0].body]
        i_await = [i for i, t in enumerate(body) if "await" in t and "send_discovery_message" in t and t.startswith("self.disco =")]
        i_stamp = [i for i, t in enumerate(body) if t.replace(" ", "") == "self.disco_timestamp=time.monotonic()"]
        assigns = [ast.unparse(t) for n in ast.walk(fn) if isinstance(n, (ast.Assign, ast.AugAssign)) for t in (n.targets if isinstance(n, ast.Assign) else [n.target])]
        others = [a for a in assigns if a in ("self.disco", "self.disco_timestamp")]
        ok = len(i_await) == 1 and len(i_stamp) == 1 and i_await[0] < i_stamp[0] and len(others) == 2
        return "true" if ok else "false"

    body_def("stampAfterDiscovery", ": Bool", stamp_builder, "false")

    # ---- control-flow shapes the models are built on (statement structure, read off the AST) ----
    def handlers_of(fn, exc_name):
        return [h for n in ast.walk(fn) if isinstance(n, ast.Try) for h in n.handlers if h.type is not None and exc_name in ast.unparse(h.type)]

    def send_retry_builder():
        # Client._send: the request is repeated ONCE after NotInTimeWindow — by `_send_once`, not by `_send`
        fn = func_ast(RAW.Client._send)
        hs = handlers_of(fn, "NotInTimeWindow")
        if len(hs) != 1:
            return "false"
        calls = [ast.unparse(c.func) for n in hs[0].body for c in ast.walk(n) if isinstance(c, ast.Call)]
        sends = [c for c in calls if c.startswith("self._send")]
        loops = [n for n in ast.walk(fn) if isinstance(n, (ast.While, ast.For, ast.AsyncFor))]
        return "true" if sends == ["self._send_once"] and not loops else "false"

    body_def("retryOnceShape", ": Bool", send_retry_builder, "false")

    def id_check_builder():
        # Client._send_once: the id check follows the decoding, unconditionally, before the return
        fn = func_ast(RAW.Client._send_once)
        top = [ast.unparse(st) for st in fn.body]
        i_dec = [i for i, t in enumerate(top) if "self.mpm.decode(" in t]
        i_val = [i for i, t in enumerate(top) if t.startswith("validate_response_id(request_id, response.value.request_id)")]
        i_ret = [i for i, t in enumerate(top) if t.startswith("return")]
        ok = len(i_dec) == 1 and len(i_val) == 1 and len(i_ret) == 1 and i_dec[0] < i_val[0] < i_ret[0] and top[i_ret[0]] == "return response"
        return "true" if ok else "false"

    body_def("idCheckedBeforeReturn", ": Bool", id_check_builder, "false")

    def reconfigure_builder():
        # Client.reconfigure: old config and mpm are put back in a `finally` around configure + yield
        fn = func_ast(RAW.Client.reconfigure)
        tries = [n for n in fn.body if isinstance(n, ast.Try)]
        if len(tries) != 1 or tries[0].handlers:
            return "false"
        t = tries[0]
        body = [ast.unparse(x) for x in t.body]
        fin = sorted(ast.unparse(x) for x in t.finalbody)
        saved = sorted(ast.unparse(x) for x in fn.body if isinstance(x, ast.Assign))
        ok = body == ["self.configure(**kwargs)", "yield"] and fin == ["self.config = old_config", "self.mpm = old_mpm"] and saved == ["old_config = self.config", "old_mpm = self.mpm"]
        return "true" if ok else "false"

    body_def("reconfigureRestoresInFinally", ": Bool", reconfigure_builder, "false")

    def udp_close_builder():
        # send_udp: every attempt's transport is closed in a `finally` of the try around get_data
        fn = func_ast(TR.send_udp)
        loops = [n for n in ast.walk(fn) if isinstance(n, ast.While)]
        if len(loops) != 1:
            return "false"
        tries = [n for n in loops[0].body if isinstance(n, ast.Try)]
        if len(tries) != 1:
            return "false"
        fin = [ast.unparse(x) for x in tries[0].finalbody]
        opened = [ast.unparse(x) for x in loops[0].body if isinstance(x, ast.Assign) and "create_datagram_endpoint" in ast.unparse(x)]
        return "true" if fin == ["transport.close()"] and len(opened) == 1 and opened[0].replace("(", "").replace(")", "").startswith("transport, protocol =") else "false"

    body_def("udpClosesInFinally", ": Bool", udp_close_builder, "false")

    def trap_stateless_builder():
        # register_trap_callback: the message-processing model is created inside the per-datagram
        # closure (nothing is carried from one datagram to the next), and the source is attached
        fn = func_ast(RAW.register_trap_callback)
        inner = [n for n in fn.body if isinstance(n, ast.FunctionDef) and n.name == "decode"]
        if len(inner) != 1:
            return "false"
        d = inner[0]
        text = [ast.unparse(x) for x in d.body]
        creates = [t for t in text if "mpm.create(" in t]
        nonlocal_ = [n for n in ast.walk(d) if isinstance(n, (ast.Nonlocal, ast.Global))]
        lcd_inside = any(t.startswith("lcd") for t in text)
        return "true" if len(creates) == 1 and not nonlocal_ and lcd_inside else "false"

    body_def("trapDecoderStateless", ": Bool", trap_stateless_builder, "false")

    def level_builder():
        # validate_security_level: a sequence of `if <condition>: raise UnsupportedSecurityLevel(...)`
        # over the credentials' keys and the flags of the incoming message
        import puresnmp_plugins.security.usm as USM

        fn = func_ast(USM.validate_security_level)
        atoms = {"credentials.auth is not None": "(hasAuth = true)", "credentials.priv is not None": "(hasPriv = true)",
                 "credentials.auth is None": "(hasAuth = false)", "credentials.priv is None": "(hasPriv = false)",
                 "flags.auth": "(fAuth = true)", "flags.priv": "(fPriv = true)",
                 "message.header.flags.auth": "(fAuth = true)", "message.header.flags.priv": "(fPriv = true)"}

        def cond(e):
            key = ast.unparse(e)
            if key in atoms:
                return atoms[key]
            if isinstance(e, ast.UnaryOp) and isinstance(e.op, ast.Not):
                return f"(¬ {cond(e.operand)})"
            if isinstance(e, ast.BoolOp):
                return "(" + (" ∧ " if isinstance(e.op, ast.And) else " ∨ ").join(cond(v) for v in e.values) + ")"
            raise Untranslatable(f"condition {key}")

        conds = []
        for st in fn.body:
            if isinstance(st, ast.Expr) and isinstance(st.value, ast.Constant):
                continue
            if isinstance(st, ast.Assign) and ast.unparse(st) == "flags = message.header.flags":
                continue
            if isinstance(st, ast.If) and not st.orelse and len(st.body) == 1 and isinstance(st.body[0], ast.Raise) and "UnsupportedSecurityLevel" in ast.unparse(st.body[0]):
                conds.append(cond(st.test))
                continue
            raise Untranslatable(f"statement {ast.unparse(st)[:60]}")
        if not conds:
            raise Untranslatable("no check at all")
        return "decide (" + " ∨ ".join(conds) + ")"

    body_def("levelRefused", "(hasAuth hasPriv fAuth fPriv : Bool) : Bool", level_builder, "false")

    def walk_shape_builder():
        # Client.multiwalk: roots sorted for the first request; `yielded` is a local of the generator;
        # one `while unfinished_oids:` loop whose fetch is guarded by `except NoSuchOID: break` and
        # `except FaultySNMPImplementation` (break only under ERRORS_WARN, else re-raise); every response
        # goes through group_varbinds -> get_unfinished_walk_oids -> deduped_varbinds(oids, …, yielded)
        fn = func_ast(RAW.Client.multiwalk)
        text = ast.unparse(fn)
        loops = [n for n in ast.walk(fn) if isinstance(n, ast.While)]
        if len(loops) != 1 or ast.unparse(loops[0].test) != "unfinished_oids":
            return "false"
        tries = [n for n in loops[0].body if isinstance(n, ast.Try)]
        if len(tries) != 1:
            return "false"
        hs = {ast.unparse(h.type): h for h in tries[0].handlers if h.type is not None}
        ok = set(hs) == {"NoSuchOID", "FaultySNMPImplementation"}
        ok = ok and [ast.unparse(x) for x in hs["NoSuchOID"].body if not isinstance(x, ast.Expr)] == ["break"]
        f = hs.get("FaultySNMPImplementation")
        ok = ok and f is not None and ast.unparse(f.body[-1]) == "raise" and any(isinstance(x, ast.If) and "ERRORS_WARN" in ast.unparse(x.test) and ast.unparse(x.body[-1]) == "break" for x in f.body)
        ok = ok and "yielded: Set[ObjectIdentifier] = set()" in text and "self." + "yielded" not in text and "nonlocal" not in text and "global " not in text
        ok = ok and text.count("deduped_varbinds(oids, grouped_oids, yielded)") == 2 and text.count("get_unfinished_walk_oids(grouped_oids)") == 2
        ok = ok and "sorted(oids)" in text
        return "true" if ok else "false"

    body_def("walkLoopShape", ": Bool", walk_shape_builder, "false")

    def bulk_fetcher_shape_builder():
        # Client._bulkwalk_fetcher.fetcher: the first request asks for `bulk_size` repetitions; a response
        # shorter than one repetition is completed by requests for the missing columns with
        # max-repetitions 1, the loop ending when such a request returns nothing; the per-column
        # successor check raises FaultySNMPImplementation
        outer = func_ast(RAW.Client._bulkwalk_fetcher)
        inner = [n for n in ast.walk(outer) if isinstance(n, ast.AsyncFunctionDef) and n.name == "fetcher"]
        if len(inner) != 1:
            return "false"
        fn = inner[0]
        text = ast.unparse(fn)
        loops = [n for n in ast.walk(fn) if isinstance(n, ast.While)]
        if len(loops) != 1:
            return "false"
        body = [ast.unparse(x) for x in loops[0].body]
        ok = len(body) == 3 and body[0].replace(" ", "") == "missing=awaitself._bulkget_varbinds([],oids[len(varbinds):],max_list_size=1)"
        ok = ok and body[1].replace("\n", " ").split() == "if not missing: break".split() and body[2] == "varbinds.extend(missing)"
        ok = ok and ast.unparse(loops[0].test).startswith("0 < len(varbinds) < len(oids) and (not any(")
        ok = ok and "await self._bulkget_varbinds([], oids, max_list_size=bulk_size)" in text
        ok = ok and "if not previous[col] < varbind.oid:" in text and "raise FaultySNMPImplementation" in text
        return "true" if ok else "false"

    body_def("bulkFetcherShape", ": Bool", bulk_fetcher_shape_builder, "false")

    def engine_ids_builder():
        # V3MPM.encode: the security engine id is the DISCOVERED one (timing, request generation); the
        # caller's engine id is the CONTEXT engine id and defaults to the discovered one when empty
        from puresnmp_plugins.mpm import v3 as MV3

        fn = func_ast(MV3.V3MPM.encode)
        text = [ast.unparse(x) for x in ast.walk(fn) if isinstance(x, (ast.Assign, ast.If, ast.Call))]
        ok = "security_engine_id = self.disco.authoritative_engine_id" in text
        ok = ok and any(t.replace("\n", " ").split() == "if engine_id == b'': engine_id = security_engine_id".split() for t in text)
        gen = [t for t in text if t.startswith("self.security_model.generate_request_message(")]
        ok = ok and len(gen) == 1 and gen[0].replace(" ", "") == "self.security_model.generate_request_message(msg,security_engine_id,credentials)"
        tim = [t for t in text if t.startswith("self.security_model.set_engine_timing(")]
        ok = ok and len(tim) == 1 and tim[0].replace(" ", "").startswith("self.security_model.set_engine_timing(self.disco.authoritative_engine_id,")
        sc = [t for t in text if t.startswith("ScopedPDU(")]
        ok = ok and len(sc) == 1 and sc[0].replace(" ", "") == "ScopedPDU(OctetString(engine_id),OctetString(context_name),pdu)"
        return "true" if ok else "false"

    body_def("securityEngineIsDiscovered", ": Bool", engine_ids_builder, "false")

    def pywrapper_args_builder():
        # PyWrapper: every public method that delegates to `self.client.<same name>` hands every one of its
        # own parameters on (directly, or through a local computed from it) — nothing the caller passes
        # (`errors`, `bulk_size`, `max_list_size`, `_rowtype`) is dropped on the way
        from puresnmp.api import pythonic as PY

        cls = ast.parse(textwrap.dedent(inspect.getsource(PY.PyWrapper))).body[0]
        seen = 0
        for fn in cls.body:
            if not isinstance(fn, (ast.AsyncFunctionDef, ast.FunctionDef)) or fn.name.startswith("_"):
                continue
            params = [a.arg for a in fn.args.args[1:]] + [a.arg for a in fn.args.kwonlyargs]
            calls = [c for c in ast.walk(fn) if isinstance(c, ast.Call) and ast.unparse(c.func) == f"self.client.{fn.name}"]
            if not calls:
                continue
            if len(calls) != 1:
                return "false"
            seen += 1
            flows = {}
            for st in ast.walk(fn):
                if isinstance(st, ast.Assign) and len(st.targets) == 1 and isinstance(st.targets[0], ast.Name):
                    flows.setdefault(st.targets[0].id, set()).update(n.id for n in ast.walk(st.value) if isinstance(n, ast.Name))
            used = set(n.id for a in list(calls[0].args) + [k.value for k in calls[0].keywords] for n in ast.walk(a) if isinstance(n, ast.Name))
            for _ in range(4):
                used |= set(x for u in list(used) for x in flows.get(u, ()))
            if any(p not in used for p in params):
                return "false"
        return "true" if seen >= 9 else "false"

    body_def("pyWrapperPassesArgs", ": Bool", pywrapper_args_builder, "false")

    # ---- reflected data --------------------------------------------------------------
    def fact(name, typ, builder, stub):
        try:
            w(f"def {name} : {typ} := {builder()}")
        except Exception as exc:
            status["missing"][name] = f"{type(exc).__name__}: {exc}"
            w(f"-- MISSING {name}: {type(exc).__name__}: {str(exc)[:100]}")
            w(f"def {name} : {typ} := {stub}")
        w("")

    def registry():
        rows = []
        seen = set()
        for cls in X690Type.all():
            for nature in cls.NATURE:
                key = (str(cls.TYPECLASS.value), int(cls.TAG), str(nature.value))
                # the registry is keyed by (class, tag, nature); later registrations win
                reg = X690Type.get(cls.TYPECLASS, cls.TAG, nature)
                if key in seen:
                    continue
                seen.add(key)
                signed = bool(getattr(reg, "SIGNED", True)) if issubclass(reg, Integer) else False
                kind = "int" if issubclass(reg, Integer) else (
                    "seq" if issubclass(reg, XT.Sequence) else (
                    "oid" if issubclass(reg, XT.ObjectIdentifier) else (
                    "null" if issubclass(reg, XT.Null) else (
                    "pdu" if issubclass(reg, P.PDU) else (
                    "ip" if issubclass(reg, T.IpAddress) else (
                    "str" if issubclass(reg, XT.OctetString) else (
                    "marker" if reg in (P.NoSuchObject, P.NoSuchInstance, P.EndOfMibView) else "raw")))))))
                rows.append((key[0], key[1], key[2], reg.__name__, kind, signed))
        rows.sort()
        return lean_list(
            [f"({lean_str(a)}, {b}, {lean_str(c)}, {lean_str(d)}, {lean_str(e)}, {'true' if f else 'false'})" for a, b, c, d, e, f in rows]
        )

    fact("registry", "List (String × Nat × String × String × String × Bool)", registry, "[]")

    def type_tag_bytes():
        from x690.util import TypeInfo

        rows = {}
        for cls in X690Type.all():
            try:
                rows[cls.__name__] = bytes(TypeInfo(cls.TYPECLASS, cls.NATURE[0], cls.TAG))[0]
            except Exception:  # noqa: BLE001 - classes with tags that do not fit one octet
                continue
        return lean_list([f"({lean_str(k)}, {v})" for k, v in sorted(rows.items())])

    # identifier octet `bytes(obj)` starts with: class, first registered nature, tag
    fact("typeTagBytes", "List (String × Nat)", type_tag_bytes, "[]")

    def pdu_tags():
        rows = []
        for name in ["GetRequest", "GetNextRequest", "GetResponse", "SetRequest", "BulkGetRequest", "InformRequest", "Trap", "Report"]:
            cls = getattr(P, name)
            rows.append(f"({lean_str(name)}, {int(cls.TAG)})")
        return lean_list(rows)

    fact("pduTags", "List (String × Nat)", pdu_tags, "[]")

    def error_table():
        rows = sorted((int(c.IDENTIFIER), c.__name__) for c in E.ErrorResponse.__subclasses__())
        return lean_list([f"({a}, {lean_str(b)})" for a, b in rows])

    fact("errorTable", "List (Int × String)", error_table, "[]")

    def confirmed():
        from puresnmp_plugins.mpm import v3 as MV3
        from puresnmp.pdu import PDUContent

        rows = []
        for name in ["GetRequest", "GetNextRequest", "GetResponse", "SetRequest", "BulkGetRequest", "InformRequest", "Trap", "Report"]:
            cls = getattr(P, name)
            inst = cls(1, 0, 1) if name == "BulkGetRequest" else cls(PDUContent(1, []))
            rows.append(f"({lean_str(name)}, {'true' if MV3.is_confirmed(inst) else 'false'})")
        return lean_list(rows)

    fact("confirmedClasses", "List (String × Bool)", confirmed, "[]")

    fact("defaultTimeout", "Nat", lambda: str(int(C.DEFAULT_TIMEOUT)), "0")
    fact("defaultRetries", "Nat", lambda: str(int(C.DEFAULT_RETRIES)), "0")
    fact("maxVarbinds", "Nat", lambda: str(int(C.MAX_VARBINDS)), "0")
    fact("messageMaxSize", "Nat", lambda: str(int(TR.MESSAGE_MAX_SIZE)), "0")
    fact("configFields", "List String", lambda: lean_list([lean_str(f) for f in RAW.ClientConfig.__dataclass_fields__]), "[]")
    fact(
        "credentialMpm",
        "List (String × Nat)",
        lambda: lean_list(
            [
                f"({lean_str('V1')}, {CR.V1('x').mpm})",
                f"({lean_str('V2C')}, {CR.V2C('x').mpm})",
                f"({lean_str('V3')}, {CR.V3('x').mpm})",
            ]
        ),
        "[]",
    )

    def mpm_ids():
        from puresnmp_plugins.mpm import v1, v2c, v3

        return lean_list([f"({lean_str(n)}, {int(m.IDENTIFIER)})" for n, m in (("v1", v1), ("v2c", v2c), ("v3", v3))])

    fact("mpmIdentifiers", "List (String × Nat)", mpm_ids, "[]")

    def usm_errors():
        from puresnmp_plugins.security import usm

        fn = func_ast(usm.validate_usm_message)
        rows = []
        for node in ast.walk(fn):
            if isinstance(node, ast.Dict):
                for k, v in zip(node.keys, node.values):
                    oid = k.args[0].value
                    rows.append((tuple(int(x) for x in oid.split(".")), v.value))
        if not rows:
            raise Untranslatable("no table")
        return lean_list([f"({list(o)}, {lean_str(m)})" for o, m in rows])

    fact("usmErrorOids", "List (List Nat × String)", usm_errors, "[]")

    def usm_error_pdus():
        """tag octets of the PDU classes validate_usm_message looks into: the classes of an
        `if not isinstance(<...>.data, (A, B)): return` guard at the top of the function;
        no such guard = every PDU = the empty list"""
        from puresnmp import pdu as P
        from puresnmp_plugins.security import usm

        fn = func_ast(usm.validate_usm_message)
        body = [n for n in fn.body if not (isinstance(n, ast.Expr) and isinstance(n.value, ast.Constant))]
        first = body[0]
        if not isinstance(first, ast.If):
            return "[]"
        t = first.test
        if not (
            isinstance(t, ast.UnaryOp) and isinstance(t.op, ast.Not) and isinstance(t.operand, ast.Call)
            and getattr(t.operand.func, "id", None) == "isinstance" and len(first.body) == 1
            and isinstance(first.body[0], ast.Return) and first.body[0].value is None and not first.orelse
        ):  # fmt: skip
            raise Untranslatable("unknown guard at the top of validate_usm_message")
        subject = ast.unparse(t.operand.args[0])
        if subject != "message.scoped_pdu.data":
            raise Untranslatable(f"guard on {subject}")
        classes = t.operand.args[1]
        names = [e.id for e in classes.elts] if isinstance(classes, ast.Tuple) else [classes.id]
        tags = []
        for n in names:
            cls = getattr(usm, n, None) or getattr(P, n)
            tags.append(int(bytes(cls(P.PDUContent(0, [])))[0]))
        if not tags:
            raise Untranslatable("empty class tuple")
        return lean_list([str(x) for x in sorted(tags)])

    fact("usmErrorPduTags", "List Nat", usm_error_pdus, "[]")

    def usm_param_check():
        """(classes, exact) of the item check in USMSecurityParameters.from_snmp_type:
        `expected_types = (A, B, ...)` and a generator over zip(seq, expected_types) that applies
        either `isinstance(item, type_)` or `type(item) is type_`"""
        from puresnmp_plugins.security import usm

        fn = func_ast(usm.USMSecurityParameters.from_snmp_type)
        classes = None
        for node in ast.walk(fn):
            if isinstance(node, ast.Assign) and getattr(node.targets[0], "id", None) == "expected_types" and isinstance(node.value, ast.Tuple):
                classes = [e.id for e in node.value.elts]
        if not classes:
            raise Untranslatable("expected_types not found")
        kinds = set()
        for node in ast.walk(fn):
            if isinstance(node, ast.GeneratorExp) and "expected_types" in ast.unparse(node):
                e = node.elt
                if isinstance(e, ast.Call) and getattr(e.func, "id", None) == "isinstance" and ast.unparse(e.args[1]) == node.generators[0].target.elts[1].id:
                    kinds.add("isinstance")
                elif (
                    isinstance(e, ast.Compare) and len(e.ops) == 1 and isinstance(e.ops[0], ast.Is)
                    and ast.unparse(e.left) == f"type({node.generators[0].target.elts[0].id})"
                    and ast.unparse(e.comparators[0]) == node.generators[0].target.elts[1].id
                ):  # fmt: skip
                    kinds.add("exact")
                else:
                    raise Untranslatable("item check: " + ast.unparse(e))
        if len(kinds) != 1:
            raise Untranslatable(f"item checks found: {sorted(kinds)}")
        return classes, kinds == {"exact"}

    fact("usmParamClasses", "List String", lambda: lean_list([lean_str(c) for c in usm_param_check()[0]]), "[]")
    fact("usmParamExact", "Bool", lambda: "true" if usm_param_check()[1] else "false", "false")

    def type_bases():
        rows = set()
        classes = list(X690Type.all())
        names = {c.__name__ for c in classes}
        for c in classes:
            for b in c.__mro__[1:]:
                if b.__name__ in names and b.__name__ != c.__name__:
                    rows.add((c.__name__, b.__name__))
        return lean_list([f"({lean_str(a)}, {lean_str(b)})" for a, b in sorted(rows)])

    fact("typeBases", "List (String × String)", type_bases, "[]")

    def no_default_ctor():
        """registered classes `x690.decode` cannot instantiate (`cls()` raises TypeError, which
        `X690Type.from_bytes` turns into X690Error): any TLV carrying their tag is undecodable"""
        out = []
        for c in X690Type.all():
            try:
                c()
            except TypeError:
                out.append(c.__name__)
            except Exception:  # noqa: BLE001 - only the TypeError is converted by from_bytes
                pass
        return lean_list([lean_str(n) for n in sorted(out)])

    fact("noDefaultCtor", "List String", no_default_ctor, "[]")

    def bytes_valued():
        """registered classes whose `.value` / `.pythonize()` is the content as `bytes` (OCTET STRING
        and its kin, and every class that keeps X690Type's default `decode_raw`)"""
        out = []
        for c in X690Type.all():
            try:
                obj = c.from_bytes(b"\x01", slice(0, 1))
                if type(obj.value) is bytes and type(obj.pythonize()) is bytes:
                    out.append(c.__name__)
            except Exception:  # noqa: BLE001
                pass
        return lean_list([lean_str(n) for n in sorted(set(out))])

    fact("bytesValued", "List String", bytes_valued, "[]")

    def digest_placeholder():
        from puresnmp_plugins.security import usm

        fn = func_ast(usm.reset_digest)
        for node in ast.walk(fn):
            if isinstance(node, ast.BinOp) and isinstance(node.op, ast.Mult) and isinstance(node.left, ast.Constant) and isinstance(node.left.value, bytes):
                val = node.left.value * node.right.value
                return lean_list([str(x) for x in val])
        raise Untranslatable("placeholder not found")

    fact("digestPlaceholder", "List Nat", digest_placeholder, "[]")

    def key_expand_size():
        from puresnmp import util as U

        src = inspect.getsource(U.password_to_key)
        tree = ast.parse(textwrap.dedent(src))
        for node in ast.walk(tree):
            if isinstance(node, ast.Assign) and isinstance(node.targets[0], ast.Name) and node.targets[0].id == "hash_size":
                return str(eval(compile(ast.Expression(node.value), "<c>", "eval")))
        raise Untranslatable("hash_size not found")

    fact("keyExpandSize", "Nat", key_expand_size, "0")

    # attribute-write footprint (C14): which self.* attributes each method assigns, and
    # whether the assignment is lexically after an `await` in that method.
    def footprint():
        from puresnmp_plugins.mpm import v3 as MV3
        from puresnmp_plugins.security import usm

        rows = []
        for cls in (RAW.Client, MV3.V3MPM, usm.UserSecurityModel):
            for name, member in sorted(vars(cls).items()):
                if not inspect.isfunction(member):
                    continue
                fn = func_ast(member)
                awaits = sorted(n.lineno for n in ast.walk(fn) if isinstance(n, ast.Await))
                for node in ast.walk(fn):
                    targets = []
                    if isinstance(node, ast.Assign):
                        targets = node.targets
                    elif isinstance(node, (ast.AugAssign, ast.AnnAssign)):
                        targets = [node.target]
                    for t in targets:
                        if isinstance(t, ast.Attribute) and isinstance(t.value, ast.Name) and t.value.id == "self":
                            after = any(a <= node.lineno for a in awaits)
                            rows.append((cls.__name__, name, t.attr, after))
        rows = sorted(set(rows))
        return lean_list([f"({lean_str(a)}, {lean_str(b)}, {lean_str(c)}, {'true' if d else 'false'})" for a, b, c, d in rows])

    fact("selfWrites", "List (String × String × String × Bool)", footprint, "[]")

    def module_state():
        # module-level mutable state in the modules C14 anchors (assignments to globals
        # inside functions via `global`, and module-level dict/list/set literals)
        import puresnmp.util as U
        from puresnmp_plugins.mpm import v3 as MV3
        from puresnmp_plugins.security import usm

        rows = []
        for mod in (RAW, U, MV3, usm):
            tree = ast.parse(inspect.getsource(mod))
            for node in ast.walk(tree):
                if isinstance(node, ast.Global):
                    for n in node.names:
                        rows.append((mod.__name__, n))
            for node in tree.body:
                if isinstance(node, (ast.Assign, ast.AnnAssign)):
                    val = node.value
                    tgt = node.targets[0] if isinstance(node, ast.Assign) else node.target
                    if isinstance(val, (ast.Dict, ast.List, ast.Set)) and isinstance(tgt, ast.Name):
                        rows.append((mod.__name__, tgt.id))
        rows = sorted(set(rows))
        return lean_list([f"({lean_str(a)}, {lean_str(b)})" for a, b in rows])

    fact("moduleState", "List (String × String)", module_state, "[]")

    w("end Snmp.Gen")
    text = "\n".join(out) + "\n"
    os.makedirs(os.path.dirname(OUT), exist_ok=True)
    old = None
    if os.path.exists(OUT):
        with open(OUT, encoding="utf8") as fh:
            old = fh.read()
    if old != text:
        tmp = OUT + f".tmp{os.getpid()}"
        with open(tmp, "w", encoding="utf8") as fh:
            fh.write(text)
        os.replace(tmp, OUT)
    status["sha256"] = hashlib.sha256(text.encode("utf8")).hexdigest()
    status["changed"] = old != text
    tmp = STATUS + f".tmp{os.getpid()}"
    with open(tmp, "w") as fh:
        json.dump(status, fh, indent=1, sort_keys=True)
    os.replace(tmp, STATUS)
    print(json.dumps(status))


if __name__ == "__main__":
    main()
