#!/bin/bash
# usage: tools/try_mutant.sh <patch.diff> <Cxx> [more Cxx...]   -- applies the patch to /repo, runs the quick checks, reverts.
set -u
patch="$1"; shift
cd /repo || exit 2
if [ -n "$(git status --porcelain -- src)" ]; then echo "repo not clean"; exit 2; fi
git apply "$patch" || { echo "patch does not apply"; exit 2; }
ev=$(mktemp -d); cp -a /verif/evidence/. "$ev"/   # evidence written while a seeded change is applied must not survive
for p in "$@"; do
  (cd /verif && timeout 1500 ./check "$p" --tier "${TIER:-quick}" 2>&1 | tail -${TAIL:-6}; echo "exit=${PIPESTATUS[0]}")
done
git -C /repo checkout -- . 
cp -a "$ev"/. /verif/evidence/; rm -rf "$ev"
git -C /repo status --porcelain -- src | head -3
