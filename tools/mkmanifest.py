#!/usr/bin/env python3
"""Regenerates MANIFEST.json from the table below (kept valid at all times)."""
import json
import os

HERE = os.path.dirname(os.path.abspath(__file__))
ROOT = os.path.dirname(HERE)

TECH = "Lean 4 theorems over a model tied to the source by generated facts and differential correspondence"

# property -> (level text, level note)
CLAIMED = {
    "C01": (
        "proof: on the Python-faithful Lean model of Client.multiwalk (group_varbinds, get_unfinished_walk_oids, "
        "deduped_varbinds, multigetnext): completeness + termination against the conformant agent of every strictly "
        "ascending database, pairwise disjoint roots in any order (C01_complete, by refinement to the abstract "
        "(root,cursor) loop); nothing outside the roots, nothing twice, order independence for ANY agent; single root "
        "strictly ascending for ANY agent; the model is tied to the code by end-to-end trace correspondence (small scope "
        "+ random incl. usmStats subtrees, v2c/v3; big tables of 10^4+ instances judged by the oracle; volatile agents whose "
        "objects are evaluated once per binding) and unit-level correspondence of group_varbinds / get_unfinished_walk_oids / "
        "deduped_varbinds",
        "the theorems are about the model; the tie to raw.py/util.py is the trace correspondence (sampled); conformant agent semantics are spec-side definitions; codec / v3 framing are C05/C06/C09-C11",
    ),
    "C02": (
        "proof: on the Python-faithful model: against any exchange that answers GETBULK like a conformant agent with 1..max-"
        "repetitions repetitions shortened ANYWHERE (also inside the first repetition, RFC 3416 4.2.3; every truncation policy "
        "of the model agent is proved to be such), for every repetition count >= 1 and pairwise disjoint roots in any order, "
        "the bulk walk (fetcher incl. its completion requests) ends normally and yields every entry strictly below a root, "
        "database entries only (C02_bulk_complete), hence exactly the instance set of the GETNEXT walk, each once "
        "(C02_bulk_eq_getnext); for ANY agent: nothing outside the roots, nothing twice, order independence, and size 1 IS "
        "the GETNEXT walk; a message-size limit keeps an agent conformant (C02_size_limit_conformant); GETBULK bound = N+M*R over "
        "the generated expression; bulk walk wire traces correspond to the implementation for sizes x truncation policies "
        "(incl. size-limited agents), big uneven tables judged by the oracle",
        "the theorems are about the model; the tie to raw.py/util.py is the wire-trace correspondence (sampled); conformant agent semantics are spec-side definitions",
    ),
    "C03": (
        "proof: on the Python-faithful model, for an ARBITRARY exchange function and pairwise disjoint roots, GETNEXT walk "
        "(C03_getnext_bound) and bulk walk with any repetition count (C03_bulk_bound): no OID the walk continues from occurs "
        "twice, every such OID was returned by the agent, at most |U|+1 fetch rounds (U = OIDs the agent ever returns), and the "
        "loop budget is never what stops the walk; every response accepted by the bulk fetcher's per-column check advances "
        "every column (cc_columns); a non-advancing answer is refused as FaultySNMPImplementation and ends the walk at once, "
        "strict or lenient; traces against all agent functions over a 3-OID universe, random scripted agents and starved / "
        "truncating agents correspond (GETNEXT and bulk; behind v1 and v2c credentials); 2-3 walks interleaved on one client each "
        "end as they do alone",
        "the bound counts fetch rounds: the bulk fetcher's completion requests inside one round (at most one per column, each "
        "adding a binding or ending the round) are covered by the model and correspondence; nested roots are outside the theorem",
    ),
    "C04": (
        "proof: result of every single-exchange operation stated outright as a function of the accepted response (values in "
        "order, successors to end of view, SET request = supplied bindings, bulk split, count/oversize refusal, no invented "
        "binding), composed with the conformant agent; tied by end-to-end correspondence over v1/v2c/v3 x levels with "
        "extra/dropped-binding faults",
        "BER codec and USM are abstracted at this level (C05/C06/C09 cover them); dict() modelled as insertion-ordered association list",
    ),
    "C05": (
        "proof (partial): the independent specification reader (strict definite-length BER, RFC message grammar) reads back exactly the "
        "request record from what the x690 mirror writes: lengths, every integer, OIDs of the stated domain with unbounded later "
        "arcs, every SET value kind, PDU framing, community messages (whole datagram, nothing else), SNMPv3 header / USM "
        "parameters / msgData and the scoped PDU; each operation builds that record (PDU tags from generated facts); the discovery "
        "probe reads back as the RFC 3414 discovery request (C05_discovery_probe); tied by BYTE-EXACT comparison of every datagram "
        "at the sender seam — discovery probes included — with the model's emit, plus the independent Python decoder",
        "partial: OIDs with >= 2 arcs, arc0 <= 2, arc1 < 40; for 2.x with x >= 40 the statement is proved false (x690 packs the first two arcs into one octet) and recorded as a known finding of the dependency; datagrams < 256^126 "
        "octets; digest octets and ciphertext are taken from the wire (C10, C11)",
    ),
    "C06": (
        "proof (partial): a value TLV of any SNMP base/application type or exception marker, written in ANY admissible definite "
        "length form (minimal, long form with 1..126 octets, non-minimal) anywhere in a datagram, is found by the index-based "
        "x690 mirror with exactly its content, dispatched to the registered class (generated registry, signedness included) and "
        "decoded to the value the specification reader reads from the same octets; whole nested structures (binding lists, "
        "bindings, PDUs with their four-TLV reader, message wrappers, header, USM block, scoped PDU) in every mix of length "
        "forms decode to the tree of the same shape (C06_tree_decode, induction over the structure and the decode_raw loop); "
        "unsigned classes never negative; integer / OID codec round trips for all integers and all OIDs of the domain; "
        "re-encoding: bytes() of a decoded object keeps the content octets (C06_reencode_value); bytes(X.decode(d)) for the USM "
        "parameter block, the scoped PDU and the whole SNMPv3 message (plain and encrypted), for every well-formed d in any mix of "
        "length forms, is the structure of the same contents under encode_length's forms, and decoding it yields the same field "
        "values (C06_reencode_usm / _scoped / _message_encrypted / _message_plain, C06_reencoded_fields; Model/Reenc). The mirror "
        "is tied to x690 / puresnmp by tree correspondence on all five structures, by octet-exact correspondence of the three "
        "decode+bytes paths (well-formed and malformed stream) and by re-encoding checks against the independent reader",
        "partial: OID content starting with an octet < 120 — outside it (arc0 = 2, arc1 >= 40) the statement is proved false "
        "(x690 splits the first sub-identifier with // 40, % 40) and recorded as a known finding of the dependency; unsigned "
        "application integers in proper non-negative encoding for equality with the RFC value; the theorems are about the Lean "
        "mirror of x690 (function by function), the tie is the correspondence",
    ),
    "C07": (
        "proof: id in the request = id validated for every operation and clock value; accepted => ids equal; mismatch => "
        "InvalidResponseId / never a result; echo accepted (v1/v2c/v3); foreign community/version refused; tied by correspondence "
        "with a scripted clock (read count compared) and perturbing agents, walks and discovery included; the retransmission "
        "after a notInTimeWindow report is under the same rule (C07_retry_rule; foreign id on the retransmitted request's answer)",
        "one clock read per operation is a model assumption validated by the read-count comparison",
    ),
    "C08": (
        "proof: generated status->class table equals the documented one (decide), generic class outside 1..18, offending OID "
        "selection incl. index 0 / beyond the list / empty list, never data, every operation and version; unit matrix + e2e",
        "laziness of PDU decoding (where the error surfaces) is modelled by forcePdu placement",
    ),
    "C17": (
        "proof: Counter32/64 range+wrap, tick and IPv4 round trips proved for all integers over bodies generated from the "
        "source by the mini translator; correspondence on boundaries + dense tick prefix",
        "float division in TimeTicks.pythonize is modelled as exact (argued in DESIGN.md, sampled); x690 Integer codec modelled",
    ),
    "C09": (
        "proof: for every MAC / localisation / privacy function: with an auth key whatever is accepted carried the auth flag, the "
        "credential's user name, a 12-octet digest equal to the MAC (localised key, octets as received with the digest zeroed); with "
        "a priv key it carried the priv flag and an OCTET STRING payload decrypted under the key localised to the engine id in the "
        "message with the message's boots/time/salt, plaintext never accepted; unauthenticated messages (Reports included) only "
        "raise; under an explicit unforgeability hypothesis the result is an authentic one; tied by structural forgeries run "
        "through the real message-processing model vs the model (independent HMAC / keystream oracles), a bit-flipping MITM, and "
        "mutated wrappers of authentic responses given to the model as raw datagrams (V3Glue: accepted => authentic, same result)",
        "cryptographic strength is a hypothesis (C09_same_result), not a theorem; hangs inside x690 on corrupted input are "
        "attributed to the recorded dependency finding only when the Lean x690 mirror predicts the loop for that datagram",
    ),
    "C10": (
        "proof: flags = level of the credentials (generated V3Flags code) and every confirmed-class request kind reportable "
        "(generated is_confirmed table, decide); security parameters = discovery result + user; digest = MAC over the datagram "
        "with twelve zero octets, and datagram / MAC input differ only in those twelve octets (in-place lemma over the message "
        "structure); authentic responses at the credentials' level are accepted for every length and whatever objects they carry "
        "(only Report-PDUs are searched for usmStats error objects: guard generated from validate_usm_message); the MAC input "
        "is located in the octets as received: reset_raw_digest over the x690 mirror zeroes exactly a 12-octet digest field of "
        "EVERY datagram of the SNMPv3 shape, any length forms (C10_raw_digest_window, C10_accepts_wire; unit correspondence); "
        "the glue Message.decode / USMSecurityParameters.decode over the mirror reads the fields as written from every well-formed "
        "message (C10_fields_from_wire) and the whole incoming path composes from the octets on (C10_accepts_datagram; suite "
        "wire-incoming: the model is given the datagram only); expansion buffer has n octets "
        "with octet i = password[i mod |password|] for every non-empty password; localisation buffer Ku ++ engineId ++ Ku; tied "
        "by the reference RFC 3414 agent accepting every generated request, independent HMAC over the wire bytes, byte-exact "
        "comparison with the model, authentic responses sweeping all lengths 100..300, recording-hash key derivation",
        "HMAC / hash functions are abstract in Lean (theorems hold for every function) and trusted in hashlib",
    ),
    "C11": (
        "proof: for every privacy plug-in (enc, dec): msgData of the datagram = OCTET STRING of enc(key, engine id, boots, time, "
        "bytes(scoped PDU)).1 with key = privacy pass-phrase localised to the discovered engine id by the auth hash, privacy "
        "parameters = the returned salt, and the independent reader finds exactly that in the datagram; the datagram depends on "
        "the scoped PDU only through the plug-in's output; incoming decryption uses the key and the engine id / boots / time / "
        "salt found in the message; dec o enc = id implies every payload round-trips; tied by a recording keyed-stream plug-in "
        "in the plug-in namespace: wire bytes, recorded arguments, visibility of SET payload / context name, results",
        "exercised with one plug-in (the theorems quantify over all); cipher strength is outside the property",
    ),
    "C12": (
        "proof: first datagram of a fresh client is a discovery probe in every history; every request carries the "
        "discovered engine id (security and default context engine id); refused discovery replies (foreign msg id / no bindings) "
        "cache nothing; from ANY state (after any history of requests, clock advances, agent reboots, refused replies) a "
        "request by an authenticated user ends with a request inside the agent's 150 s window (C12_in_window), with at most "
        "one out-of-window attempt per operation; without reboots every datagram is within 1 s of the agent's time; a discovery "
        "exchange that takes any amount of time leaves the operation inside the window (C12_slow_discovery_in_window); tied by "
        "histories on a shared virtual time line (wire trace + agent verdict per datagram; slow discoveries of 0.3 s .. 200 s)",
        "no clock drift between client and agent; engine-time wrap at 2^31 and time passing during the request exchange itself not modelled",
    ),
    "C13": (
        "proof (partial): for every outcome sequence, retries and timeout: <= retries identical transmissions, first reply inside "
        "its window returned unmodified at its arrival time after k full timeouts, Timeout iff retries unanswered attempts in a row "
        "and then after exactly retries x timeout, opened = closed endpoints — also when the caller abandons the call at any instant "
        "(C13_cancel_no_socket_left, C13_cancel_late); tied by running the real send_udp on a virtual-time "
        "loop with a recording endpoint factory, exhaustively over all outcome sequences up to the retry budget, plus loopback "
        "sockets (IPv4 and IPv6, loggers quiet and at DEBUG, a call abandoned by its caller) with /proc/self/fd counts",
        "partial: kernel socket behaviour, ICMP timing, garbage collection and equal-deadline timer order are outside the model",
    ),
    "C14": (
        "proof (partial): for every finite set of coroutine-tree operations on one client and every schedule: every finished "
        "operation returns its solo result and has emitted exactly its solo requests, at every moment its requests are a prefix "
        "of the solo run (the only extra traffic is discovery probes), deliveries never touch another operation's state; tied by "
        "running 2..8 real operations under a controllable scheduler that enumerates all answering orders (v2c, v3 authPriv, one "
        "and two clients; plus cancellation, a round-robin schedule with all requests outstanding at once, overlapping walks, a "
        "reply damaged in transit) and comparing the global wire-event order with the model's under the same schedule",
        "partial: asyncio's no-preemption-between-awaits semantics is assumed; agent answers are a function of the request",
    ),
    "C15": (
        "proof: for every raw result every wrapper method returns built-in types only (PyVal universe with an explicit leak "
        "constructor, dictionary keys included) and equals the element-wise pythonisation (tables: same items, index key moved "
        "last); tied by deep type inspection of all 11 PyWrapper methods vs the raw client against agents holding every value kind, "
        "and lenient / strict walks through both layers against devices that get stuck",
        "TimeTicks.pythonize goes through float division, modelled as exact (see C17)",
    ),
    "C16": (
        "proof: tablify (as table/bulktable call it) proved for every binding list below the entry: succeeds, one row per "
        "distinct index suffix with the full suffix under key '0', every binding's value in its row under its column, every "
        "value cell comes from a binding (nothing from outside); lifted to every sorted agent database (C16_table_of_db); on "
        "the Python-faithful walk model, against the conformant agent with any truncation policy and repetition count, "
        "table(entry)'s GETNEXT walk and bulktable(table)'s bulk walk both end normally and yield EXACTLY the agent's instances "
        "below the root, in database order (C16_getnext_yields, C16_bulk_yields), hence both API paths hand tablify the same "
        "bindings and return the same rows in the same order for every SMI table (C16_api_agree); tied by unit tablify + "
        "e2e tables (raw, bulk, pythonic) with a database oracle",
        "row ids / column keys are compared as tuples / numbers (string rendering assumed injective); SMI guards: columns >= 1, "
        "nothing below the table outside entry .1, no instance equal to the table / entry OID itself",
    ),
    "C17": (
        "proof: Counter32/64 range+wrap, tick and IPv4 round trips proved for all integers over bodies generated from the "
        "source by the mini translator; correspondence on boundaries + dense tick prefix",
        "float division in TimeTicks.pythonize is modelled as exact (argued in DESIGN.md, sampled); x690 Integer codec modelled",
    ),
    "C09": (
        "proof: for every MAC / localisation / privacy function: with an auth key whatever is accepted carried the auth flag, the "
        "credential's user name, a 12-octet digest equal to the MAC (localised key, octets as received with the digest zeroed); with "
        "a priv key it carried the priv flag and an OCTET STRING payload decrypted under the key localised to the engine id in the "
        "message with the message's boots/time/salt, plaintext never accepted; unauthenticated messages (Reports included) only "
        "raise; under an explicit unforgeability hypothesis the result is an authentic one; tied by structural forgeries run "
        "through the real message-processing model vs the model (independent HMAC / keystream oracles), a bit-flipping MITM, and "
        "mutated wrappers of authentic responses given to the model as raw datagrams (V3Glue: accepted => authentic, same result)",
        "cryptographic strength is a hypothesis (C09_same_result), not a theorem; hangs inside x690 on corrupted input are "
        "attributed to the recorded dependency finding only when the Lean x690 mirror predicts the loop for that datagram",
    ),
    "C10": (
        "proof: flags = level of the credentials (generated V3Flags code) and every confirmed-class request kind reportable "
        "(generated is_confirmed table, decide); security parameters = discovery result + user; digest = MAC over the datagram "
        "with twelve zero octets, and datagram / MAC input differ only in those twelve octets (in-place lemma over the message "
        "structure); authentic responses at the credentials' level are accepted for every length and whatever objects they carry "
        "(only Report-PDUs are searched for usmStats error objects: guard generated from validate_usm_message); the MAC input "
        "is located in the octets as received: reset_raw_digest over the x690 mirror zeroes exactly a 12-octet digest field of "
        "EVERY datagram of the SNMPv3 shape, any length forms (C10_raw_digest_window, C10_accepts_wire; unit correspondence); "
        "the glue Message.decode / USMSecurityParameters.decode over the mirror reads the fields as written from every well-formed "
        "message (C10_fields_from_wire) and the whole incoming path composes from the octets on (C10_accepts_datagram; suite "
        "wire-incoming: the model is given the datagram only); expansion buffer has n octets "
        "with octet i = password[i mod |password|] for every non-empty password; localisation buffer Ku ++ engineId ++ Ku; tied "
        "by the reference RFC 3414 agent accepting every generated request, independent HMAC over the wire bytes, byte-exact "
        "comparison with the model, authentic responses sweeping all lengths 100..300, recording-hash key derivation",
        "HMAC / hash functions are abstract in Lean (theorems hold for every function) and trusted in hashlib",
    ),
    "C11": (
        "proof: for every privacy plug-in (enc, dec): msgData of the datagram = OCTET STRING of enc(key, engine id, boots, time, "
        "bytes(scoped PDU)).1 with key = privacy pass-phrase localised to the discovered engine id by the auth hash, privacy "
        "parameters = the returned salt, and the independent reader finds exactly that in the datagram; the datagram depends on "
        "the scoped PDU only through the plug-in's output; incoming decryption uses the key and the engine id / boots / time / "
        "salt found in the message; dec o enc = id implies every payload round-trips; tied by a recording keyed-stream plug-in "
        "in the plug-in namespace: wire bytes, recorded arguments, visibility of SET payload / context name, results",
        "exercised with one plug-in (the theorems quantify over all); cipher strength is outside the property",
    ),
    "C12": (
        "proof: first datagram of a fresh client is a discovery probe in every history; every request carries the "
        "discovered engine id (security and default context engine id); refused discovery replies (foreign msg id / no bindings) "
        "cache nothing; from ANY state (after any history of requests, clock advances, agent reboots, refused replies) a "
        "request by an authenticated user ends with a request inside the agent's 150 s window (C12_in_window), with at most "
        "one out-of-window attempt per operation; without reboots every datagram is within 1 s of the agent's time; a discovery "
        "exchange that takes any amount of time leaves the operation inside the window (C12_slow_discovery_in_window); tied by "
        "histories on a shared virtual time line (wire trace + agent verdict per datagram; slow discoveries of 0.3 s .. 200 s)",
        "no clock drift between client and agent; engine-time wrap at 2^31 and time passing during the request exchange itself not modelled",
    ),
    "C13": (
        "proof (partial): for every outcome sequence, retries and timeout: <= retries identical transmissions, first reply inside "
        "its window returned unmodified at its arrival time after k full timeouts, Timeout iff retries unanswered attempts in a row "
        "and then after exactly retries x timeout, opened = closed endpoints — also when the caller abandons the call at any instant "
        "(C13_cancel_no_socket_left, C13_cancel_late); tied by running the real send_udp on a virtual-time "
        "loop with a recording endpoint factory, exhaustively over all outcome sequences up to the retry budget, plus loopback "
        "sockets (IPv4 and IPv6, loggers quiet and at DEBUG, a call abandoned by its caller) with /proc/self/fd counts",
        "partial: kernel socket behaviour, ICMP timing, garbage collection and equal-deadline timer order are outside the model",
    ),
    "C14": (
        "proof (partial): for every finite set of coroutine-tree operations on one client and every schedule: every finished "
        "operation returns its solo result and has emitted exactly its solo requests, at every moment its requests are a prefix "
        "of the solo run (the only extra traffic is discovery probes), deliveries never touch another operation's state; tied by "
        "running 2..8 real operations under a controllable scheduler that enumerates all answering orders (v2c, v3 authPriv, one "
        "and two clients; plus cancellation, a round-robin schedule with all requests outstanding at once, overlapping walks, a "
        "reply damaged in transit) and comparing the global wire-event order with the model's under the same schedule",
        "partial: asyncio's no-preemption-between-awaits semantics is assumed; agent answers are a function of the request",
    ),
    "C15": (
        "proof: for every raw result every wrapper method returns built-in types only (PyVal universe with an explicit leak "
        "constructor, dictionary keys included) and equals the element-wise pythonisation (tables: same items, index key moved "
        "last); tied by deep type inspection of all 11 PyWrapper methods vs the raw client against agents holding every value kind, "
        "and lenient / strict walks through both layers against devices that get stuck",
        "TimeTicks.pythonize goes through float division, modelled as exact (see C17)",
    ),
    "C16": (
        "proof: tablify (as table/bulktable call it) proved for every binding list below the entry: succeeds, one row per "
        "distinct index suffix with the full suffix under key '0', every binding's value in its row under its column, every "
        "value cell comes from a binding (nothing from outside); lifted to every sorted agent database (C16_table_of_db); "
        "table(entry) and bulktable(table) agree for SMI tables; the single-root walk of C01 is proved to yield exactly the "
        "instances below the entry; tied by unit tablify + e2e tables (raw, bulk, pythonic) with a database oracle",
        "row ids / column keys are compared as tuples / numbers (string rendering assumed injective); the bulk walk's yields are "
        "tied to the model by correspondence (C02), not by theorem; SMI guards: columns >= 1, nothing below the table outside entry .1",
    ),
    "C18": (
        "proof: exit of a reconfigure block restores config and message-processing instance exactly (normal, exceptional, "
        "inner configure failing, any nesting depth, permanent configure inside), whole programs without a top-level configure "
        "end where they started, requests inside see exactly the overrides, configure sets exactly the named fields, unknown "
        "settings refused without change (generated field list), family switch -> protocol version (generated tables); tied by "
        "random nested programs run on a real client with every seam call observed",
        "object identities compared up to renaming; requests racing with a block entered by another task are outside the property",
    ),
    "C19": (
        "proof: listener = filterMap of a stateless per-datagram decision: matching v2c notification delivered exactly once with "
        "source and exactly its bindings, foreign community / unknown version / malformed never delivered, compositional over "
        "sequences (a bad datagram never affects later ones), deliveries = matching datagrams in order, pythonic TrapInfo view; "
        "from the octets on (C19_from_wire): register_trap_callback's decoder over the x690 mirror delivers, for every notification "
        "an agent writes in any length forms, exactly one Trap with the sender's address and the bindings sent, and drops foreign "
        "communities (C19_from_wire_foreign); tied by datagram sequences injected through the real receiver protocol with the "
        "decoder installed by register_trap_callback (the model is given the independent reader's parse and, separately, nothing "
        "but the datagrams), malformed content inside intact wrappers, plus a loopback listener",
        "the parsed-datagram model takes well-formedness from the independent BER reader; the wire model decodes eagerly where x690 is lazy (equivalent here: everything is looked at before the callback runs); "
        "informs are delivered without acknowledgement (outside the property)",
    ),
    "C20": (
        "proof (partial): on the index-based x690 mirror every successfully decoded TLV moves the cursor forward unless it sits "
        "on an indefinite-length octet with no later 00 00; under the decidable guard that no position of the datagram is such a "
        "header, reading any sequence takes at most |datagram|+1 loop iterations (result or exception, never running on); the full "
        "statement is proved FALSE (C20_loop_counterexample, recurring state on 30 04 01 00 04 80) and recorded as a known "
        "finding of the dependency, as is the quadratic cost of long OID sub-identifiers; the decode path writes only the "
        "security-model slot (generated footprint); what a discovery reply may put into the cache comes from items of exactly "
        "the classes OCTET STRING / INTEGER (C20_disco_params_typed over the generated class check; unit correspondence of "
        "USMSecurityParameters.decode on every identifier octet). Tied by a mutation sweep (bit flips, truncations, header substitutions incl. application / PDU tags, random, "
        "nested) delivered to real clients / discovery / trap decoder under a time guard with a follow-up request; every real "
        "hang must be predicted by the model; suite retention bounds what stays allocated after hundreds of distinct datagrams "
        "(trap listener, forged v3 responses)",
        "partial: CPU time, big-integer cost and memory are runtime facts bounded only through iteration counts; two open known "
        "findings in the external x690 package",
    ),
}


def main():
    props = [json.loads(l) for l in open(os.path.join(ROOT, "properties.jsonl"))]
    m = {
        "version": 1,
        "setup_cmd": "/venv/bin/python tools/extract.py && cd lean && lake build && lake build " + " ".join(f"Snmp.Props.C{i:02d}" for i in range(1, 21)),
        "hooks": {
            "guard": "PURESNMP_VERIF",
            "enable": "no source hooks: every observation point is a public seam (Client(sender=...), send_udp(loop=...), "
            "plug-in namespaces); checks export PURESNMP_VERIF=1 for uniformity",
            "baseline_off_cmd": "cd /repo && /venv/bin/python -m pytest -ra -q -p no:cacheprovider --timeout=900 --continue-on-collection-errors",
            "source_commits": [],
            "add_only": True,
        },
        "engines": [
            {"name": "lean-proofs", "path": "lean/Snmp", "serves_properties": [], "kind_free_text": "Lean 4 model (Snmp/Model), generated facts (Snmp/Gen), property theorems (Snmp/Props), checked by lake build + #print axioms"},
            {"name": "fact-extractor", "path": "tools/extract.py", "serves_properties": [], "kind_free_text": "regenerates Snmp/Gen/Facts.lean from the working tree (reflection + mini Python->Lean translator)"},
            {"name": "correspondence-harness", "path": "harness", "serves_properties": [], "kind_free_text": "differential execution of the real implementation against the compiled Lean model driver + direct property oracles used for the failing-input search"},
        ],
        "checks": [],
        "notes": "See DESIGN.md. Every check: ./check <id> --tier quick|thorough [--replay file]. Known findings: known_findings.json.",
        "not_applicable": [],
    }
    for p in props:
        pid = p["id"]
        if pid in CLAIMED:
            text, note = CLAIMED[pid]
            m["checks"].append(
                {
                    "property_id": pid,
                    "quick_cmd": f"./check {pid} --tier quick",
                    "thorough_cmd": f"./check {pid} --tier thorough",
                    "evidence_file": f"evidence/{pid}.json",
                    "replay_cmd_template": f"./check {pid} --replay {{path}}",
                    "engine": "lean-proofs",
                    "level_claimed": {"category": "proof", "text": text, "design_ref": f"DESIGN.md section 5, {pid}"},
                    "level_note": note,
                    "technique": TECH,
                }
            )
        else:
            m["not_applicable"].append({"property_id": pid, "reason": "check under construction in this session (Lean model + correspondence not yet committed); not a claim of inapplicability"})
    for e in m["engines"]:
        e["serves_properties"] = [c["property_id"] for c in m["checks"]]
    with open(os.path.join(ROOT, "MANIFEST.json"), "w") as fh:
        json.dump(m, fh, indent=1)
    print("claimed:", [c["property_id"] for c in m["checks"]])


if __name__ == "__main__":
    main()
