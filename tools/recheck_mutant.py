#!/usr/bin/env python3
"""recheck.py <seeded id> <check id> "<history text>": applies the seeded change to /repo, runs the quick check in /verif, reverts, updates meta.json"""
import json, subprocess, sys, os, tempfile, shutil
sid, chk, hist = sys.argv[1], sys.argv[2], sys.argv[3]
d = f"/verif/seeded/{sid}"
assert subprocess.run("git -C /repo status --porcelain -- src", shell=True, capture_output=True, text=True).stdout.strip() == ""
subprocess.run(f"git -C /repo apply {d}/patch.diff", shell=True, check=True)
ev = tempfile.mkdtemp(); subprocess.run(f"cp -a /verif/evidence/. {ev}/", shell=True)
try:
    p = subprocess.run(f"cd /verif && ./check {chk} --tier quick", shell=True, capture_output=True, text=True, timeout=3000)
finally:
    subprocess.run("git -C /repo checkout -- .", shell=True, check=True)
    subprocess.run(f"cp -a {ev}/. /verif/evidence/; rm -rf {ev}", shell=True)
lines = (p.stdout + p.stderr).strip().splitlines()
m = json.load(open(f"{d}/meta.json"))
m.setdefault("checks_quick", {})[chk] = {"exit": p.returncode, "violation_lines": [l for l in lines if l.startswith("VIOLATION")][:3], "summary": lines[-1:]}
m["caught"] = any(v["exit"] == 1 for v in m["checks_quick"].values())
m["history"] = hist
json.dump(m, open(f"{d}/meta.json", "w"), indent=1)
print(sid, chk, "exit", p.returncode, lines[-1:])
